// Copyright 2021 ByteDance Inc.
//
// Licensed under the Apache License, Version 2.0 (the "License");
// you may not use this file except in compliance with the License.
// You may obtain a copy of the License at
//
//     http://www.apache.org/licenses/LICENSE-2.0
//
// Unless required by applicable law or agreed to in writing, software
// distributed under the License is distributed on an "AS IS" BASIS,
// WITHOUT WARRANTIES OR CONDITIONS OF ANY KIND, either express or implied.
// See the License for the specific language governing permissions and
// limitations under the License.

// SIMULATION SHIM. This file replaces github.com/bytedance/gopkg/lang/mcache/mcache.go
// through `go build -overlay` when the verification harness in /verif is built. It keeps
// the public API (Malloc, Free) and the size-class semantics of the original and adds a
// control API (Sim*) the harness drives:
//
//   ModeReal    the original implementation (sync.Pool per power-of-two class), verbatim.
//   ModeLedger  deterministic free lists, junk fill on Malloc, poison on Free, a ledger
//               of every buffer (live/free, owner task) and immediate detection of
//               double free, interior free, free of caller-owned memory and
//               write-after-free.
//   ModeFence   ledger + every buffer is its own mmap region followed by a PROT_NONE
//               guard page; Free mprotects the buffer PROT_NONE until it is reused, so any
//               access after recycle faults (bottom of this file).
package mcache

import (
	"fmt"
	"sync"
	"syscall"
	"unsafe"

	"github.com/bytedance/gopkg/lang/dirtmake"
)

const maxSize = 46

// index contains []byte which cap is 1<<index
var caches [maxSize]sync.Pool

type bytesHeader struct {
	Data *byte
	Len  int
	Cap  int
}

func init() {
	for i := 0; i < maxSize; i++ {
		size := 1 << i
		caches[i].New = func() interface{} {
			buf := dirtmake.Bytes(0, size)
			h := (*bytesHeader)(unsafe.Pointer(&buf))
			return h.Data
		}
	}
}

// calculates which pool to get from
//
//go:norace
func calcIndex(size int) int {
	if size == 0 {
		return 0
	}
	if isPowerOfTwo(size) {
		return bsr(size)
	}
	return bsr(size) + 1
}

// Malloc supports one or two integer argument.
// The size specifies the length of the returned slice, which means len(ret) == size.
// A second integer argument may be provided to specify the minimum capacity, which means cap(ret) >= cap.
//
//go:norace
func Malloc(size int, capacity ...int) []byte {
	if len(capacity) > 1 {
		panic("too many arguments to Malloc")
	}
	var c = size
	if len(capacity) > 0 && capacity[0] > size {
		c = capacity[0]
	}

	i := calcIndex(c)

	if simMode != ModeReal {
		return simMalloc(size, i)
	}

	if dirtmake.SimCeiling > 0 && (1<<i) > dirtmake.SimCeiling {
		panic(&dirtmake.SimOOM{Size: 1 << i, Where: "mcache.Malloc"})
	}
	ret := []byte{}
	h := (*bytesHeader)(unsafe.Pointer(&ret))
	h.Len = size
	h.Cap = 1 << i
	h.Data = caches[i].Get().(*byte)
	simStats.Mallocs++
	if SimYield != nil {
		SimYield(YieldMalloc)
	}
	return ret
}

// Free should be called when the buf is no longer used.
//
//go:norace
func Free(buf []byte) {
	size := cap(buf)
	if !isPowerOfTwo(size) {
		return
	}
	if simMode != ModeReal {
		simFree(buf)
		return
	}
	if SimCallerRanges != nil && simInCaller(uintptr(unsafe.Pointer(&buf[:1][0])), size) {
		simViolation("CALLER_MEM_FREED", fmt.Sprintf("mcache.Free of caller-owned memory cap=%d", size))
	}
	h := (*bytesHeader)(unsafe.Pointer(&buf))
	caches[bsr(size)].Put(h.Data)
	simStats.Frees++
	if SimYield != nil {
		SimYield(YieldFree)
	}
}

// ---------------------------------------------------------------------------------------
// simulation control API
// ---------------------------------------------------------------------------------------

const (
	ModeReal = iota
	ModeLedger
	ModeFence
)

const (
	YieldMalloc = 1
	YieldFree   = 2
)

const (
	ReuseLIFO = iota
	ReuseFIFO
	ReuseRandom
)

// SimStats counts allocator events of the current run.
type SimStats struct {
	Mallocs, Frees, Reused, Fresh, Adopted int64
	CrossTaskReuse                         int64 // buffer freed by task A handed to task B
	PoisonChecks                           int64
}

type bufRec struct {
	id    int
	class int
	data  []byte // full capacity
	live  bool
	owner int // task that holds it (live) or released it (free)
	fence *fenceRegion
}

var (
	simMode  = ModeReal
	simReuse = ReuseLIFO
	simStats SimStats

	// SimYield is called at allocator entry points (a scheduler yield point).
	SimYield func(point int)
	// SimChoose supplies tape choices (reuse order). nil => 0.
	SimChoose func(n int) int
	// SimOwner returns the id of the running task. nil => 0.
	SimOwner func() int
	// SimViolation is called with a violation class and detail; it must not return
	// normally (the harness panics with its own violation type).
	SimViolation func(class, detail string)
	// SimJunk is the junk byte generator seed for the run.
	SimJunk uint64

	// SimCallerRanges lists caller-owned memory [lo,hi) registered by the harness.
	SimCallerRanges [][2]uintptr

	recs   = map[uintptr]*bufRec{} // by data pointer
	all    []*bufRec
	free   [maxSize][]*bufRec
	nextID int
)

//go:norace
func simViolation(class, detail string) {
	if SimViolation != nil {
		SimViolation(class, detail)
	}
	panic("mcache shim: " + class + ": " + detail)
}

// SimSetMode selects the allocator mode and reuse order; call only from SimReset-ed state.
//
//go:norace
func SimSetMode(mode, reuse int) {
	simMode = mode
	simReuse = reuse
}

// SimMode returns the current mode.
//
//go:norace
func SimMode() int { return simMode }

// SimGetStats returns the counters of the current run.
//
//go:norace
func SimGetStats() SimStats { return simStats }

// SimReset forgets every buffer. Ledger memory is left to the GC; fence regions go back to
// the quarantine (PROT_NONE) for reuse by later runs.
//
//go:norace
func SimReset() {
	for _, r := range all {
		if r.fence != nil {
			fenceRetire(r.fence)
			r.fence = nil
		}
		r.data = nil
	}
	all = all[:0]
	for k := range recs {
		delete(recs, k)
	}
	for i := range free {
		free[i] = free[i][:0]
	}
	nextID = 0
	simStats = SimStats{}
	SimCallerRanges = SimCallerRanges[:0]
	for i := range simCallerKeep {
		simCallerKeep[i] = nil
	}
	simCallerKeep = simCallerKeep[:0]
}

// SimRegisterCaller marks b's whole capacity as caller-owned memory.
//
//go:norace
func SimRegisterCaller(b []byte) {
	if cap(b) == 0 {
		return
	}
	p := uintptr(unsafe.Pointer(&b[:1][0]))
	SimCallerRanges = append(SimCallerRanges, [2]uintptr{p, p + uintptr(cap(b))})
	// keep the memory alive until the next reset: otherwise the GC could hand the same
	// addresses to a pool buffer and a legitimate Free would look like a free of caller memory
	simCallerKeep = append(simCallerKeep, b)
}

var simCallerKeep [][]byte

//go:norace
func simInCaller(p uintptr, size int) bool {
	for _, r := range SimCallerRanges {
		if p < r[1] && p+uintptr(size) > r[0] {
			return true
		}
	}
	return false
}

//go:norace
func junkFill(b []byte, seed uint64) {
	x := seed*0x9E3779B97F4A7C15 + 0x1234567
	i := 0
	for ; i+8 <= len(b); i += 8 {
		x ^= x << 13
		x ^= x >> 7
		x ^= x << 17
		*(*uint64)(unsafe.Pointer(&b[i])) = x
	}
	for ; i < len(b); i++ {
		x ^= x << 13
		x ^= x >> 7
		x ^= x << 17
		b[i] = byte(x)
	}
}

// poison pattern: byte j of buffer id is poisonByte(id, j)
//
//go:norace
func poisonWord(id int) uint64 {
	return 0xDEAD000000000000 | uint64(uint32(id))<<16 | 0xF1EE
}

//go:norace
func poisonFill(r *bufRec) {
	w := poisonWord(r.id)
	b := r.data
	i := 0
	for ; i+8 <= len(b); i += 8 {
		*(*uint64)(unsafe.Pointer(&b[i])) = w
	}
	for ; i < len(b); i++ {
		b[i] = 0xDF
	}
}

//go:norace
func poisonIntact(r *bufRec) int {
	w := poisonWord(r.id)
	b := r.data
	i := 0
	for ; i+8 <= len(b); i += 8 {
		if *(*uint64)(unsafe.Pointer(&b[i])) != w {
			return i
		}
	}
	for ; i < len(b); i++ {
		if b[i] != 0xDF {
			return i
		}
	}
	return -1
}

// SimIsPoison reports whether b (len>=8) looks like poison of any buffer: used by the
// harness to classify wrong bytes as "read after free".
//
//go:norace
func SimIsPoison(b []byte) bool {
	n := 0
	for i := 0; i+1 < len(b); i++ {
		if (b[i] == 0xDE && b[i+1] == 0xAD) || (b[i] == 0xAD && b[i+1] == 0xDE) || (b[i] == 0xEE && b[i+1] == 0xF1) || (b[i] == 0xF1 && b[i+1] == 0xEE) {
			n++
		}
	}
	return n > 0 && len(b) >= 2
}

//go:norace
func owner() int {
	if SimOwner != nil {
		return SimOwner()
	}
	return 0
}

//go:norace
func simMalloc(size, class int) []byte {
	if SimYield != nil {
		SimYield(YieldMalloc)
	}
	capb := 1 << class
	if dirtmake.SimCeiling > 0 && capb > dirtmake.SimCeiling {
		panic(&dirtmake.SimOOM{Size: capb, Where: "mcache.Malloc"})
	}
	simStats.Mallocs++
	var r *bufRec
	fl := free[class]
	if n := len(fl); n > 0 {
		k := n - 1 // LIFO
		switch simReuse {
		case ReuseFIFO:
			k = 0
		case ReuseRandom:
			if SimChoose != nil {
				k = SimChoose(n)
			}
		}
		r = fl[k]
		copy(fl[k:], fl[k+1:])
		free[class] = fl[:n-1]
		if r.fence != nil {
			fenceUnprotect(r.fence)
		} else {
			simStats.PoisonChecks++
			if off := poisonIntact(r); off >= 0 {
				simViolation("WRITE_AFTER_FREE", fmt.Sprintf("buffer #%d (class %d) was written at offset %d after it was freed by task %d", r.id, r.class, off, r.owner))
			}
		}
		simStats.Reused++
		if r.owner != owner() {
			simStats.CrossTaskReuse++
		}
	} else {
		r = &bufRec{id: nextID, class: class}
		nextID++
		if simMode == ModeFence {
			r.fence = fenceAlloc(capb)
			r.data = r.fence.buf
		} else {
			r.data = make([]byte, capb)
		}
		recs[uintptr(unsafe.Pointer(&r.data[0]))] = r
		all = append(all, r)
		simStats.Fresh++
	}
	r.live = true
	r.owner = owner()
	junkFill(r.data, SimJunk+uint64(r.id)*7919+uint64(simStats.Mallocs))
	return r.data[:size:capb]
}

//go:norace
func simFree(buf []byte) {
	size := cap(buf)
	p := uintptr(unsafe.Pointer(&buf[:1][0]))
	if simInCaller(p, size) {
		simViolation("CALLER_MEM_FREED", fmt.Sprintf("mcache.Free of caller-owned memory (cap %d) by task %d", size, owner()))
	}
	simStats.Frees++
	r := recs[p]
	if r == nil {
		// interior pointer of a known buffer?
		for _, q := range all {
			lo := uintptr(unsafe.Pointer(&q.data[0]))
			if p > lo && p < lo+uintptr(len(q.data)) {
				simViolation("INTERIOR_FREE", fmt.Sprintf("mcache.Free of an interior slice (offset %d, cap %d) of buffer #%d", p-lo, size, q.id))
			}
		}
		// memory the shim never handed out (GC heap, power-of-two capacity): the real pool
		// adopts it. Legal as long as nobody uses it afterwards: adopt and poison.
		r = &bufRec{id: nextID, class: bsr(size), data: buf[:size:size], live: true, owner: owner()}
		nextID++
		recs[p] = r
		all = append(all, r)
		simStats.Adopted++
	}
	if size != len(r.data) {
		simViolation("INTERIOR_FREE", fmt.Sprintf("mcache.Free of buffer #%d with capacity %d, allocated with %d", r.id, size, len(r.data)))
	}
	if !r.live {
		simViolation("DOUBLE_FREE", fmt.Sprintf("buffer #%d (class %d) freed twice (first by task %d, now by task %d)", r.id, r.class, r.owner, owner()))
	}
	r.live = false
	r.owner = owner()
	if r.fence != nil {
		fenceProtect(r.fence)
	} else {
		poisonFill(r)
	}
	free[r.class] = append(free[r.class], r)
	if SimYield != nil {
		SimYield(YieldFree)
	}
}

// SimCheckPoison verifies that no freed buffer has been written. Returns "" or a detail.
//
//go:norace
func SimCheckPoison() {
	if simMode != ModeLedger {
		return
	}
	for c := range free {
		for _, r := range free[c] {
			simStats.PoisonChecks++
			if off := poisonIntact(r); off >= 0 {
				simViolation("WRITE_AFTER_FREE", fmt.Sprintf("buffer #%d (class %d) was written at offset %d after it was freed by task %d", r.id, r.class, off, r.owner))
			}
		}
	}
}

// SimFreeClasses returns, per size class, how many free buffers there are.
//
//go:norace
func SimFreeClasses() (classes []int) {
	for c := range free {
		if len(free[c]) > 0 {
			classes = append(classes, c)
		}
	}
	return
}

// SimLiveBuffers returns the number of live (not freed) buffers and their total bytes.
//
//go:norace
func SimLiveBuffers() (n, bytes int) {
	for _, r := range all {
		if r.live {
			n++
			bytes += len(r.data)
		}
	}
	return
}

// SimDescribe locates an address: which buffer, state and offset (for fault attribution).
//
//go:norace
func SimDescribe(addr uintptr) (found bool, id int, live bool, off int, guard bool) {
	for _, r := range all {
		if r.fence != nil {
			lo, hi := r.fence.base, r.fence.base+uintptr(r.fence.total)
			if addr >= lo && addr < hi {
				b := uintptr(unsafe.Pointer(&r.data[0]))
				if addr >= b && addr < b+uintptr(len(r.data)) {
					return true, r.id, r.live, int(addr - b), false
				}
				return true, r.id, r.live, int(int64(addr) - int64(b)), true
			}
			continue
		}
		lo := uintptr(unsafe.Pointer(&r.data[0]))
		if addr >= lo && addr < lo+uintptr(len(r.data)) {
			return true, r.id, r.live, int(addr - lo), false
		}
	}
	return
}

// SimOwnerOf reports the ledger record that contains p (any offset).
//
//go:norace
func SimOwnerOf(b []byte) (found bool, id int, live bool, ownerTask int) {
	if cap(b) == 0 {
		return
	}
	p := uintptr(unsafe.Pointer(&b[:1][0]))
	for _, r := range all {
		lo := uintptr(unsafe.Pointer(&r.data[0]))
		if p >= lo && p < lo+uintptr(len(r.data)) {
			return true, r.id, r.live, r.owner
		}
	}
	return
}

// ---------------------------------------------------------------------------------------
// fence regions (linux): [ pages holding the buffer, buffer right-aligned ][ guard page ]
// ---------------------------------------------------------------------------------------

const pageSize = 4096

type fenceRegion struct {
	mem   []byte // whole mapping
	base  uintptr
	total int
	body  int    // bytes before the guard page
	buf   []byte // the buffer (right-aligned in body)
}

// quarantine of retired regions by body size, reused by later runs (never unmapped: a
// stale slice into an unmapped range that the Go heap later grows into would trip the
// runtime's bad-pointer check).
var fenceQuarantine = map[int][]*fenceRegion{}

// SimFenceStats: regions mapped in this process, regions reused from quarantine.
var SimFenceMapped, SimFenceReused int

//go:norace
func fenceAlloc(capb int) *fenceRegion {
	body := (capb + pageSize - 1) / pageSize * pageSize
	var f *fenceRegion
	if q := fenceQuarantine[body]; len(q) > 0 {
		f = q[len(q)-1]
		fenceQuarantine[body] = q[:len(q)-1]
		SimFenceReused++
	} else {
		mem, err := syscall.Mmap(-1, 0, body+pageSize, syscall.PROT_NONE, syscall.MAP_ANON|syscall.MAP_PRIVATE)
		if err != nil {
			panic("mcache shim: mmap failed: " + err.Error())
		}
		f = &fenceRegion{mem: mem, base: uintptr(unsafe.Pointer(&mem[0])), total: body + pageSize, body: body}
		SimFenceMapped++
	}
	if err := syscall.Mprotect(f.mem[:f.body], syscall.PROT_READ|syscall.PROT_WRITE); err != nil {
		panic("mcache shim: mprotect failed: " + err.Error())
	}
	f.buf = f.mem[f.body-capb : f.body : f.body]
	return f
}

//go:norace
func fenceProtect(f *fenceRegion) {
	if err := syscall.Mprotect(f.mem[:f.body], syscall.PROT_NONE); err != nil {
		panic("mcache shim: mprotect failed: " + err.Error())
	}
}

//go:norace
func fenceUnprotect(f *fenceRegion) {
	if err := syscall.Mprotect(f.mem[:f.body], syscall.PROT_READ|syscall.PROT_WRITE); err != nil {
		panic("mcache shim: mprotect failed: " + err.Error())
	}
}

//go:norace
func fenceRetire(f *fenceRegion) {
	_ = syscall.Mprotect(f.mem[:f.body], syscall.PROT_NONE)
	_ = syscall.Madvise(f.mem[:f.body], syscall.MADV_DONTNEED)
	fenceQuarantine[f.body] = append(fenceQuarantine[f.body], f)
}
