// Copyright 2024 ByteDance Inc.
//
// Licensed under the Apache License, Version 2.0 (the "License");
// you may not use this file except in compliance with the License.
// You may obtain a copy of the License at
//
//     http://www.apache.org/licenses/LICENSE-2.0
//
// Unless required by applicable law or agreed to in writing, software
// distributed under the License is distributed on an "AS IS" BASIS,
// WITHOUT WARRANTIES OR CONDITIONS OF ANY KIND, either express or implied.
// See the License for the specific language governing permissions and
// limitations under the License.

// SIMULATION SHIM. Replaces github.com/bytedance/gopkg/lang/dirtmake/bytes.go through
// `go build -overlay` when the verification harness in /verif is built. Same API; adds
//   - junk fill (nothing may rely on the memory being zeroed), switchable, and
//   - a per-allocation "machine memory" ceiling: a request above it raises a simulated
//     out-of-memory (panic with *SimOOM), the only form of failing allocation Go admits.
package dirtmake

import (
	"unsafe"
)

type slice struct {
	data unsafe.Pointer
	len  int
	cap  int
}

//go:linkname mallocgc runtime.mallocgc
func mallocgc(size uintptr, typ unsafe.Pointer, needzero bool) unsafe.Pointer

// SimOOM is the sentinel panic value of the simulated allocator failure.
type SimOOM struct {
	Size  int
	Where string
}

func (e *SimOOM) Error() string {
	return "simulated out of memory: " + e.Where + " asked for " + itoa(e.Size) + " bytes"
}

func itoa(n int) string {
	if n == 0 {
		return "0"
	}
	neg := n < 0
	if neg {
		n = -n
	}
	var b [24]byte
	i := len(b)
	for n > 0 {
		i--
		b[i] = byte('0' + n%10)
		n /= 10
	}
	if neg {
		i--
		b[i] = '-'
	}
	return string(b[i:])
}

var (
	// SimCeiling is the largest single allocation the simulated machine grants (0 = no limit).
	SimCeiling int
	// SimJunk != 0 fills every allocation with a pattern derived from it.
	SimJunk uint64
	// SimAllocs counts calls; SimBytes sums capacities.
	SimAllocs, SimBytes int64
)

// Bytes allocates a byte slice but does not clean up the memory it references.
// Throw a fatal error instead of panic if cap is greater than runtime.maxAlloc.
// NOTE: MUST set any byte element before it's read.
//
//go:norace
func Bytes(len, cap int) (b []byte) {
	if len < 0 || len > cap {
		panic("dirtmake.Bytes: len out of range")
	}
	if SimCeiling > 0 && cap > SimCeiling {
		panic(&SimOOM{Size: cap, Where: "dirtmake.Bytes"})
	}
	p := mallocgc(uintptr(cap), nil, false)
	sh := (*slice)(unsafe.Pointer(&b))
	sh.data = p
	sh.len = len
	sh.cap = cap
	SimAllocs++
	SimBytes += int64(cap)
	if SimJunk != 0 && cap > 0 {
		x := SimJunk + uint64(SimAllocs)*0x9E3779B97F4A7C15
		full := b[:cap]
		i := 0
		for ; i+8 <= cap; i += 8 {
			x ^= x << 13
			x ^= x >> 7
			x ^= x << 17
			*(*uint64)(unsafe.Pointer(&full[i])) = x
		}
		for ; i < cap; i++ {
			x ^= x << 13
			x ^= x >> 7
			x ^= x << 17
			full[i] = byte(x >> 24)
		}
	}
	return
}
