#!/usr/bin/env python3
"""Regenerates the table of section 12 of DESIGN.md from /verif/seeded/*/result.json."""
import json, glob, os, re
rows = []
for d in sorted(glob.glob("/verif/seeded/*")):
    if not os.path.exists(d + "/meta.json"): continue
    m = json.load(open(d + "/meta.json"))
    r = json.load(open(d + "/result.json")) if os.path.exists(d + "/result.json") else {}
    desc = " ".join(m.get("needs_to_manifest", "").split())
    title = m.get("title") or re.sub(r"^#+\s*", "", desc)[:150]
    tgt = m["property"]
    checks = r.get("checks", {})
    first = ""
    if tgt in checks and checks[tgt]["violations"]:
        v = checks[tgt]["violations"][0]
        mm = re.match(r"C\d+ (\S+) at (\S*)", v)
        if mm: first = f"{mm.group(1)} at {mm.group(2)}"
    others = [c for c in r.get("caught_by", []) if c != tgt]
    conf = ""
    if "suite_passes_with_patch" in r:
        conf = "yes" if (r.get("suite_passes_with_patch") and r.get("demo_fails_with_patch") and r.get("demo_passes_without_patch")) else "NO"
    verdict = '**yes**: ' + first if r.get('target_caught') else ('no' if r else 'not evaluated')
    if r.get('target_caught') and m.get('tier_needed'):
        verdict += " (" + m['tier_needed'] + " tier only)"
    if not r.get('target_caught') and m.get('assessment'):
        verdict = 'no - ' + m['assessment']
    rows.append(f"| {m['id']} | {title} | {conf} | {verdict} | {', '.join(others)} |")
table = "| id | change (needs to manifest) | confirmed (suite passes, demo fails/passes) | caught by its target check | also reported by |\n|---|---|---|---|---|\n" + "\n".join(rows)
p = "/verif/DESIGN.md"
s = open(p).read()
if "SEEDED_TABLE_PLACEHOLDER" in s:
    s = s.replace("SEEDED_TABLE_PLACEHOLDER", "<!-- seeded-table-begin -->\n" + table + "\n<!-- seeded-table-end -->")
else:
    s = re.sub(r"<!-- seeded-table-begin -->.*?<!-- seeded-table-end -->", "<!-- seeded-table-begin -->\n" + table.replace("\\", "\\\\") + "\n<!-- seeded-table-end -->", s, flags=re.S)
open(p, "w").write(s)
print(len(rows), "rows")
