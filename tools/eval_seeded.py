#!/usr/bin/env python3
"""Evaluate seeded defects against the checks.

usage: eval_seeded.py <seeded-dir>... [--checks C04,C05] [--tier quick] [--confirm]

For each /verif/seeded/<id>/ (patch.diff, demo file, meta.json) a scratch worktree of /repo is
created under /tmp, the patch applied, and
  --confirm : the existing test suite is run (must pass), the demo is run with the patch (must
              fail) and without it (must pass);
  then every requested check's command is run with VERIF_REPO pointing at the worktree (the
  registered commands themselves always use /repo; applying the patch to /repo and running
  ./check.sh there is equivalent). The verdict per check is written to <dir>/result.json.
The worktree and its build output are removed afterwards.
"""
import json, os, subprocess, sys, shutil, re, time

ENV = dict(os.environ, GOFLAGS="-mod=mod", GOPROXY="off", GOSUMDB="off", GOTOOLCHAIN="local")
ALL = ["C01","C02","C04","C05","C06","C08","C09","C10","C12","C14","C16","C17"]

def sh(cmd, cwd=None, env=None, timeout=3600):
    p = subprocess.run(cmd, shell=True, cwd=cwd, env=env or ENV, stdout=subprocess.PIPE, stderr=subprocess.STDOUT, text=True, timeout=timeout)
    return p.returncode, p.stdout

def main():
    args = [a for a in sys.argv[1:] if not a.startswith("--")]
    opts = [a for a in sys.argv[1:] if a.startswith("--")]
    checks = ALL
    tier = "quick"
    confirm = "--confirm" in opts
    scale = ""
    for o in opts:
        if o.startswith("--scale-others="): scale = o.split("=",1)[1]
    for o in opts:
        if o.startswith("--checks="): checks = o.split("=",1)[1].split(",")
        if o.startswith("--tier="): tier = o.split("=",1)[1]
    for d in args:
        d = os.path.abspath(d)
        sid = os.path.basename(d)
        meta = json.load(open(os.path.join(d, "meta.json")))
        wt = "/tmp/ev-" + sid
        out = "/tmp/evout-" + sid
        sh(f"git -C /repo worktree remove --force {wt}"); shutil.rmtree(wt, ignore_errors=True); shutil.rmtree(out, ignore_errors=True)
        rc, o = sh(f"git -C /repo worktree add -q {wt} HEAD")
        assert rc == 0, o
        res = {"id": sid, "property": meta.get("property"), "checks": {}}
        rp = os.path.join(d, "result.json")
        if os.path.exists(rp) and set(checks) != set(ALL):
            # a partial re-evaluation updates the stored matrix instead of replacing it
            try:
                res = json.load(open(rp))
            except Exception:
                pass
        try:
            demo = meta.get("demo_file"); demo_dir = meta.get("demo_dir"); demo_run = meta.get("demo_run")
            if confirm and demo:
                shutil.copy(os.path.join(d, demo), os.path.join(wt, demo_dir, "seeded_demo_test.go"))
                rc0, o0 = sh(demo_run, cwd=os.path.join(wt, demo_dir))
                res["demo_passes_without_patch"] = rc0 == 0
            rc, o = sh(f"git -C {wt} apply {d}/patch.diff")
            if rc != 0:
                # the patch was made before a later fix: commit touched the same file: three-way
                rc, o = sh(f"git -C {wt} apply --3way {d}/patch.diff")
                res["applied_with_3way"] = True
            assert rc == 0, "patch does not apply: " + o
            if confirm:
                if demo:
                    rc1, o1 = sh(demo_run, cwd=os.path.join(wt, demo_dir))
                    res["demo_fails_with_patch"] = rc1 != 0
                    os.remove(os.path.join(wt, demo_dir, "seeded_demo_test.go"))
                rc2, o2 = sh("go build ./... && go test -vet=off -count=1 ./...", cwd=wt)
                res["suite_passes_with_patch"] = rc2 == 0
                if rc2 != 0: res["suite_output"] = o2[-2000:]
            for c in checks:
                env = dict(ENV, VERIF_REPO=wt, VERIF_OUT=out)
                if c != meta.get("property") and scale:
                    env["VERIF_RUN_SCALE"] = scale
                t0 = time.time()
                rc, o = sh(f"/verif/check.sh {c} {tier}", cwd="/verif", env=env)
                viol = re.findall(r"^violation: (.*)$", o, re.M)
                res["checks"][c] = {"exit": rc, "run_scale": env.get("VERIF_RUN_SCALE", "1"), "violations": [v[:300] for v in viol][:4], "wall_s": round(time.time()-t0,1)}
                if rc == 2: res["checks"][c]["fault"] = o[-600:]
                if rc == 1 and c == meta.get("property"):
                    # keep the minimised replay of the target check next to the seeded defect
                    m = re.search(r"VIOLATION property=\S+ replay=(\S+)", o)
                    if m and os.path.exists(m.group(1)):
                        shutil.copy(m.group(1), os.path.join(d, f"replay-{c}.json"))
                print(f"  {sid} {c}: exit {rc} {viol[0][:160] if viol else ''}", flush=True)
        finally:
            sh(f"git -C /repo worktree remove --force {wt}"); shutil.rmtree(wt, ignore_errors=True); shutil.rmtree(out, ignore_errors=True)
        res["caught_by"] = [c for c,v in res["checks"].items() if v["exit"] == 1]
        res["target_caught"] = meta.get("property") in res["caught_by"]
        json.dump(res, open(os.path.join(d, "result.json"), "w"), indent=1)
        print(f"{sid}: target {meta.get('property')} caught={res['target_caught']} caught_by={res['caught_by']}", flush=True)

main()
