#!/usr/bin/env python3
"""Evaluate behaviour-preserving changes: every check must stay silent (exit 0).
usage: eval_benign.py <benign-dir>... [--checks=C04,...]"""
import json, os, subprocess, sys, shutil, re, time
ENV = dict(os.environ, GOFLAGS="-mod=mod", GOPROXY="off", GOSUMDB="off", GOTOOLCHAIN="local")
ALL = ["C01","C02","C04","C05","C06","C08","C09","C10","C12","C14","C16","C17"]
def sh(cmd, cwd=None, env=None, timeout=7200):
    p = subprocess.run(cmd, shell=True, cwd=cwd, env=env or ENV, stdout=subprocess.PIPE, stderr=subprocess.STDOUT, text=True, timeout=timeout)
    return p.returncode, p.stdout
args = [a for a in sys.argv[1:] if not a.startswith("--")]
checks = ALL
for o in sys.argv[1:]:
    if o.startswith("--checks="): checks = o.split("=",1)[1].split(",")
for d in args:
    d = os.path.abspath(d); sid = os.path.basename(d)
    wt = "/tmp/bn-" + sid; out = "/tmp/bnout-" + sid
    sh(f"git -C /repo worktree remove --force {wt}"); shutil.rmtree(wt, ignore_errors=True); shutil.rmtree(out, ignore_errors=True)
    rc, o = sh(f"git -C /repo worktree add -q {wt} HEAD"); assert rc == 0, o
    res = {"id": sid, "checks": {}}
    try:
        rc, o = sh(f"git -C {wt} apply {d}/patch.diff"); assert rc == 0, o
        rc2, o2 = sh("go build ./... && go test -vet=off -count=1 ./...", cwd=wt)
        res["suite_passes_with_patch"] = rc2 == 0
        env = dict(ENV, VERIF_REPO=wt, VERIF_OUT=out)
        for c in checks:
            rc, o = sh(f"/verif/check.sh {c} quick", cwd="/verif", env=env)
            viol = re.findall(r"^violation: (.*)$", o, re.M)
            res["checks"][c] = {"exit": rc, "violations": [v[:400] for v in viol][:3]}
            if rc != 0:
                res["checks"][c]["output_tail"] = o[-800:]
                m = re.search(r"VIOLATION property=\S+ replay=(\S+)", o)
                if m and os.path.exists(m.group(1)): shutil.copy(m.group(1), os.path.join(d, f"alarm-{c}.json"))
            print(f"  {sid} {c}: exit {rc} {viol[0][:200] if viol else ''}", flush=True)
    finally:
        sh(f"git -C /repo worktree remove --force {wt}"); shutil.rmtree(wt, ignore_errors=True); shutil.rmtree(out, ignore_errors=True)
    res["alarms"] = [c for c,v in res["checks"].items() if v["exit"] != 0]
    json.dump(res, open(os.path.join(d, "result.json"), "w"), indent=1)
    print(f"{sid}: suite={res.get('suite_passes_with_patch')} alarms={res['alarms']}", flush=True)
