#!/usr/bin/env python3
"""Regenerates /verif/MANIFEST.json from the table below (kept valid at all times)."""
import json, os
V = os.path.dirname(os.path.dirname(os.path.abspath(__file__)))

NA = {
 "C03":"pure function of one in-memory byte slice: no stream, schedule, allocator state or fault for a simulator to vary (its stream-fed relatives are decided under C08/C10)",
 "C07":"sequential in-memory map with no I/O, clock or shared resource; the hash seed is internal and unobservable through the API; concurrent Get is decided under C14",
 "C11":"BLength/FastWrite/FastRead are pure functions of a struct or byte slice; field order and unknown fields are input shape, not a fault or schedule",
 "C13":"unknown-field tree <-> bytes conversion is a pure function pair",
 "C15":"the no-copy path is a pure function of (values, writer attached?); the only seam (WriteDirect's error) is discarded by the code and outside the property",
 "C18":"error-wrapping helpers are pure functions of error values",
 "C19":"the buffer transport is a bytes.Buffer viewed through another type and the callbacks are plain delegation: deterministic, in-memory, no environment to fault",
 "C20":"two pure conversions",
}

TECH = "deterministic simulation with fault injection: seeded search over operation histories, source/sink delivery schedules, allocator reuse orders and task interleavings; per-operation comparison with an executable reference model; minimised replay tape"

# property -> (level text, level note, design ref)
CLAIMED = {
 "C04": ("Seeded exploration: every run drives one real bufiox reader (io.Reader-backed over a simulated Source, or bytes-backed) through a random history of Next/Peek/Skip/ReadBinary/Release with boundary-valued sizes under a per-run delivery profile (1-byte/short/fill/request-relative chunks, zero-byte reads, stall, terminal error of five kinds at any offset, data with or before the error), allocator modes (ledger+poison / real) and an adversarial co-tenant, and compares every result with a cursor-over-bytes model, then drains the stream. Sampling, not proof; the right level because the property quantifies over histories x fault sequences, which only many diverse seeded runs can reach.",
         "Trusted: the reference model (cursor over the keyed stream), the Source stub honouring io.Reader's contract, the allocator shim. Zero-read streaks are kept <= 8 (far below the conventional 100 bound); a permanent stall must end in any non-nil error.", "4 C04"),
 "C05": ("Seeded exploration: every run drives one real bufiox writer (io.Writer-backed over a simulated Sink, or bytes-backed over nil/empty/partly filled/full caller slices) through a random history of Malloc/WriteBinary/late, partial and repeated region fills/Flush with sizes from 0 to several buffers, with the Sink failing at a tape-chosen k-th write after accepting a strict prefix, allocator modes and co-tenant; compared with a region-list model (exactly once, in order, WrittenLen, returned and sticky error, sink prefix after failure, target slice of the bytes writer).",
         "Trusted: the region-list model, the Sink stub (never a short write with nil error), the allocator shim. After a sink failure only stickiness and the prefix property are demanded. Multi-flush bytes-backed writers are not generated (undefined by the property).", "4 C05"),
 "C09": ("Seeded exploration of retention histories: every zero-copy slice returned by Next/Peek is kept and re-verified after every later operation, co-tenant step and pool flush until the next Release; writer regions are filled late/partially/repeatedly up to the Flush; caller memory is registered with the allocator shim and compared with snapshots. Runs under three allocator modes: ledger+poison (double/interior/caller-memory free and write-after-free detected at the call), fence (every buffer its own mmap region, PROT_NONE after Free plus guard page: any access after recycle faults and is attributed), and the real mcache with the co-tenant as the only adversary.",
         "Trusted: the allocator shim's ledger and fence bookkeeping, the keyed-content comparison. 'Never read again after recycle' is decided precisely only in fence mode; in ledger mode reads after free show up as poison in results.", "4 C09"),
}
PLANNED = ["C01","C02","C05","C06","C08","C09","C10","C12","C14","C16","C17"]

def main():
    checks = []
    for pid,(text,note,ref) in sorted(CLAIMED.items()):
        checks.append({
            "property_id": pid,
            "quick_cmd": f"./check.sh {pid} quick",
            "thorough_cmd": f"./check.sh {pid} thorough",
            "evidence_file": f"/verif/evidence/{pid}.json",
            "replay_cmd_template": f"./check.sh {pid} --replay {{path}}",
            "engine": "simcheck",
            "level_claimed": {"category":"exploration","text":text,"design_ref":"DESIGN.md section "+ref},
            "level_note": note,
            "technique": TECH,
        })
    na = [{"property_id":k,"reason":v} for k,v in sorted(NA.items())]
    for k in PLANNED:
        if k not in CLAIMED:
            na.append({"property_id":k,"reason":"check not built yet (planned: deterministic simulation, DESIGN.md section 4); not claimed until it runs"})
    m = {
     "version":1,
     "setup_cmd":"./check.sh --setup",
     "hooks":{"guard":"verif","enable":"no hooks in /repo: every seam is an existing interface (io.Reader/io.Writer arguments) or the bytedance/gopkg mcache+dirtmake dependency, replaced at build time with `go build -overlay` by /verif/shim (GODEBUG=goindex=0)","baseline_off_cmd":"cd /repo && go test -vet=off -count=1 ./...","source_commits":[],"add_only":True},
     "engines":[{"name":"simcheck","path":"/verif/harness","serves_properties":sorted(CLAIMED.keys()),"kind_free_text":"deterministic simulator: multi-stream choice tape from VERIF_SEED, simulated io.Reader/io.Writer, overlay allocator shim (ledger/poison/fence), seeded cooperative scheduler, reference models, tape shrinker, replay files; 16 single-P worker processes"}],
     "checks":checks,
     "notes":"See DESIGN.md. Exit codes: 0 held, 1 VIOLATION line, 2 build/watchdog/harness fault. known_findings.json lists repaired defects (status fixed suppresses nothing).",
     "not_applicable":na,
    }
    json.dump(m,open(os.path.join(V,"MANIFEST.json"),"w"),indent=1)
    print("MANIFEST.json written:",len(checks),"checks,",len(na),"not applicable")
main()
