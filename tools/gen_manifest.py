#!/usr/bin/env python3
"""Regenerates /verif/MANIFEST.json from the table below (kept valid at all times)."""
import json, os
V = os.path.dirname(os.path.dirname(os.path.abspath(__file__)))

NA = {
 "C03":"pure function of one in-memory byte slice: no stream, schedule, allocator state or fault for a simulator to vary (its stream-fed relatives are decided under C08/C10)",
 "C07":"sequential in-memory map with no I/O, clock or shared resource; the hash seed is internal and unobservable through the API; concurrent Get is decided under C14",
 "C11":"BLength/FastWrite/FastRead are pure functions of a struct or byte slice; field order and unknown fields are input shape, not a fault or schedule",
 "C13":"unknown-field tree <-> bytes conversion is a pure function pair",
 "C15":"the no-copy path is a pure function of (values, writer attached?); the only seam (WriteDirect's error) is discarded by the code and outside the property",
 "C18":"error-wrapping helpers are pure functions of error values",
 "C19":"the buffer transport is a bytes.Buffer viewed through another type and the callbacks are plain delegation: deterministic, in-memory, no environment to fault",
 "C20":"two pure conversions",
}

TECH = "deterministic simulation with fault injection: seeded search over operation histories, source/sink delivery schedules, allocator reuse orders and task interleavings; per-operation comparison with an executable reference model; minimised replay tape"

# property -> (level text, level note, design ref)
CLAIMED = {
 "C04": ("Seeded exploration: every run drives one real bufiox reader (io.Reader-backed over a simulated Source, or bytes-backed) through a random history of Next/Peek/Skip/ReadBinary/Release with boundary-valued sizes under a per-run delivery profile (1-byte/short/fill/request-relative chunks, zero-byte reads, stall, terminal error of five kinds at any offset, data with or before the error), allocator modes (ledger+poison / real) and an adversarial co-tenant, and compares every result with a cursor-over-bytes model, then drains the stream; a share of runs uses a lockstep peer over hundreds of tiny requests, multi-megabyte streams, Release with an error argument and absurd counts on a reader that has reported its source's error. Sampling, not proof; the right level because the property quantifies over histories x fault sequences, which only many diverse seeded runs can reach.",
         "Trusted: the reference model (cursor over the keyed stream), the Source stub honouring io.Reader's contract, the allocator shim. Zero-read streaks are kept <= 8 (far below the conventional 100 bound); a permanent stall must end in any non-nil error.", "4 C04"),
 "C05": ("Seeded exploration: every run drives one real bufiox writer (io.Writer-backed over a simulated Sink, or bytes-backed over nil/empty/partly filled/full caller slices) through a random history of Malloc/WriteBinary/late, partial and repeated region fills/Flush with sizes from 0 to several buffers, with the Sink failing at a tape-chosen k-th write after accepting any count from 0 to the full length (error values incl. one with a Timeout method), a share of histories re-executed with the failure at every k (fault enumeration), doubling runs and megabyte cycles, allocator modes and co-tenant; compared with a region-list model (exactly once, in order, WrittenLen, returned and sticky error, sink prefix after failure, target slice of the bytes writer).",
         "Trusted: the region-list model, the Sink stub (never a short write with nil error), the allocator shim. After a sink failure only stickiness and the prefix property are demanded. Multi-flush bytes-backed writers are not generated (undefined by the property).", "4 C05"),
 "C09": ("Seeded exploration of retention histories: every zero-copy slice returned by Next/Peek is kept and re-verified after every later operation, co-tenant step and pool flush until the next Release; writer regions are filled late/partially/repeatedly up to the Flush; caller memory is registered with the allocator shim and compared with snapshots. Runs under three allocator modes: ledger+poison (double/interior/caller-memory free and write-after-free detected at the call), fence (every buffer its own mmap region, PROT_NONE after Free plus guard page: any access after recycle faults and is attributed), and the real mcache with the co-tenant as the only adversary.",
         "Trusted: the allocator shim's ledger and fence bookkeeping, the keyed-content comparison. 'Never read again after recycle' is decided precisely only in fence mode; in ledger mode reads after free show up as poison in results.", "4 C09"),

 "C01": ("Seeded exploration of the stream clauses: records of primitive items are written with thrift.BufferWriter over bufiox.DefaultWriter into a simulated Sink with flush points and buffer growth anywhere inside the record, and read back with thrift.BufferReader over bufiox.DefaultReader from a simulated Source under every fragmentation profile (1-byte, short, zero-byte reads, data with EOF) with Release between items; Sink bytes, decoded values (doubles by bit pattern) and Readn deltas are compared with an independent reference encoder. The in-place/append writers, *Length functions and buffer readers see the same values as a by-product.",
         "Value-space clauses (all 2^32 i32 values, etc.) are sampled with boundary bias only; exhaustive value enumeration is a different technique and not attempted. Trusted: reference encoder, Source/Sink stubs.", "4 C01"),
 "C02": ("Seeded exploration: well-formed value trees (all types, 11x11 key/value pairs swept over the batch, 0/1/2/many elements, fast and slow paths, nesting to 63, strings beyond the buffer size) with raw chunks in between and trailing bytes are delivered by a simulated Source to each stream-fed skipper, interleaved with Release, ordinary reads and pooled-decoder reuse; consumed length (ReadLen delta, Source cursor: no read-ahead), returned bytes and the following bytes are checked against the reference encoding, including final data arriving together with io.EOF. The two buffer skippers see the same bytes as differential partners.",
         "Trusted: reference encoder/length, Source stub. Value shapes are sampled, not enumerated.", "4 C02"),
 "C06": ("Seeded exploration through streams: parameter sets (incl. ACL token, empty/64KiB-scale strings, every padding residue, sizes aimed at just under/at/over the 65536 limit) are encoded into a DefaultWriter that already holds unflushed data (meta region allocated before, size field written after 0..many growths), into a bytes-backed writer and with EncodeToBytes; the caller writes the total length and a payload; the frame is judged by an independent layout parser and decoded through a fragmenting Source and with DecodeFromBytes; header length = bytes written = bytes consumed, payload delimited exactly. Further scenarios: 2..8 frames pipelined over one connection (one writer, one Source, one reader with Release between messages), and Encode into a bufiox.Writer that itself fails at its k-th call for every k.",
         "Trusted: independent TTHeader layout parser (wide arithmetic). Frames are compared canonically because Go map order is not seedable. Encode failing is always allowed by the property and only counted.", "4 C06"),
 "C08": ("Seeded exploration of malformed input reaching all five skippers, the three stream-fed ones through a fragmenting Source: generated value trees (incl. chains nested 1..70 of every container kind) pass through a fault transport (truncation at cut points biased to structural boundaries; corruption of type tags incl. >= 0x80, sizes 0x7fffffff/0x80000000/0xffffffff/size+-1, field ids; hostile requested type); every facility's accept/reject/extent is compared with an independent iterative reference parser per the Appendix A table, and a share of cases is expanded over every cut point (fault enumeration over crash points); a simulated memory ceiling turns giant allocation requests into a recoverable event so hostile sizes can be presented safely.",
         "Trusted: reference parser. Depth 64 is exempt, unknown tags of empty containers are don't-care, simulated OOM is accepted only for positive declared sizes above the ceiling in facilities that buffer what they skip. Grammar enumeration is not attempted.", "4 C08"),
 "C10": ("Seeded exploration of hostile frames arriving over a stream: frames laid out by the reference builder from arbitrary section plans (any order, repeats, interleaved padding, transform ids) pass through truncation, structural-byte corruption with boundary values (size field 0/1/0x3fff/0x4000/0x4001/0x8000/0xffff, magic, protocol id, info ids, counts, string lengths) and splices, then reach Decode through a fragmenting Source and DecodeFromBytes. One-directional oracle as the property states: no panic/hang, bounded consumption, success only under the reference parser's necessary conditions, and then exact header/payload lengths and maps.",
         "Trusted: independent parser with wide arithmetic. Unknown info ids are don't-care for accept/reject; duplicate keys are don't-care for map equality. Field-value enumeration (all 65536 size fields) is not attempted.", "4 C10"),
 "C12": ("Seeded exploration of exchanges between a writer peer (in-place, append or stream message-begin writer, the stream writer also after unflushed data) and a reader peer (buffer reader; stream reader over a fragmenting Source) joined by a transport that truncates at any cut point or corrupts the first word: same name/type/seq and exact consumed length, bad-version and truncation rejected; by-product: MarshalFastMsg/UnmarshalFastMsg incl. the EXCEPTION branch.",
         "Trusted: reference envelope codec. Value-space clauses are sampled.", "4 C12"),
 "C14": ("Seeded schedule exploration: 2..8 tasks (writers, readers, the three skip decoders, TTHeader codecs, span-cache decodes, FastCodec structs, shared StrMap/Str2Str Get) are first executed alone, then re-executed with exactly the same decisions under a seeded cooperative scheduler that switches at allocator calls, source reads, sink writes and step boundaries; each task's observable results must equal its solo execution, the allocator ledger/fence must stay clean, the same tapes run in the -race build where the hand-off is invisible to the race detector, so unsynchronised sharing is reported whatever the interleaving was, and in a fine-grained build in which a scratch copy of the library is rewritten (go/ast) so that every statement is a scheduling point and the string-map hash seed is simulator-controlled, which puts interleavings inside library calls (e.g. between two atomic operations of a lock-free cache) into the seeded schedule space.",
         "Trusted: the norace hand-off scheduler, the Go race detector (happens-before; 4 shadow cells per word; reports may need the preceding runs of the same worker, which the replay file records). Interleavings are explored at allocator/I-O/step granularity.", "4 C14"),
 "C16": ("Seeded exploration of decode histories (buffer readers and the stream reader over a Source, lengths across the span classes, long enough in the thorough tier to wrap the 1 MiB span) in which every decoded value is retained while the input buffer is overwritten, the stream reader's buffer is recycled (poisoned / taken by the co-tenant) and returned byte slices are appended to and overwritten; the same pre-generated history runs with the span cache disabled and enabled and the results are compared.",
         "Trusted: keyed-content comparison; the span cache's fill position is global state that cannot be reset and is kept out of all oracles.", "4 C16"),
 "C17": ("Seeded fault injection of five error values (io.EOF, io.ErrUnexpectedEOF, comparable custom, pointer-typed, wrapped) at tape-chosen offsets inside records and value trees read by thrift.BufferReader over a fragmenting Source: the failing call must match the injected error under errors.Is (and keep a wrapped cause chain reachable). By-product: failures of Binary.Skip, the Binary scalar/string/header readers and ReadMessageBegin on the C08 malformed inputs must be protocol exceptions whose type id the reference classifier allows for the first failing node.",
         "Trusted: reference classifier. Where two causes coincide at one node (out of bytes at nesting 64/65) both ids are accepted; a negative name length inside message-begin is don't-care.", "4 C17"),
}
PLANNED = ["C01","C02","C05","C06","C08","C09","C10","C12","C14","C16","C17"]

def main():
    checks = []
    for pid,(text,note,ref) in sorted(CLAIMED.items()):
        checks.append({
            "property_id": pid,
            "quick_cmd": f"./check.sh {pid} quick",
            "thorough_cmd": f"./check.sh {pid} thorough",
            "evidence_file": f"/verif/evidence/{pid}.json",
            "replay_cmd_template": f"./check.sh {pid} --replay {{path}}",
            "engine": "simcheck",
            "level_claimed": {"category":"exploration","text":text,"design_ref":"DESIGN.md section "+ref},
            "level_note": note,
            "technique": TECH,
        })
    na = [{"property_id":k,"reason":v} for k,v in sorted(NA.items())]
    for k in PLANNED:
        if k not in CLAIMED:
            na.append({"property_id":k,"reason":"check not built yet (planned: deterministic simulation, DESIGN.md section 4); not claimed until it runs"})
    m = {
     "version":1,
     "setup_cmd":"./check.sh --setup",
     "hooks":{"guard":"verif","enable":"no hooks in /repo: every seam is an existing interface (io.Reader/io.Writer arguments), the bytedance/gopkg mcache+dirtmake dependency replaced at build time with `go build -overlay` by /verif/shim (GODEBUG=goindex=0), or - for C14's fine-grained build - statement-level scheduling points inserted by /verif/harness/cmd/instrument into a scratch copy of the working tree under /verif/build (never into /repo)","baseline_off_cmd":"cd /repo && go test -vet=off -count=1 ./...","source_commits":[],"add_only":True},
     "engines":[{"name":"simcheck","path":"/verif/harness","serves_properties":sorted(CLAIMED.keys()),"kind_free_text":"deterministic simulator: multi-stream choice tape from VERIF_SEED, simulated io.Reader/io.Writer, overlay allocator shim (ledger/poison/fence), seeded cooperative scheduler, reference models, tape shrinker, replay files; 16 single-P worker processes"}],
     "checks":checks,
     "notes":"See DESIGN.md. Exit codes: 0 held, 1 VIOLATION line, 2 build/watchdog/harness fault. known_findings.json lists repaired defects (status fixed suppresses nothing).",
     "not_applicable":na,
    }
    json.dump(m,open(os.path.join(V,"MANIFEST.json"),"w"),indent=1)
    print("MANIFEST.json written:",len(checks),"checks,",len(na),"not applicable")
main()
