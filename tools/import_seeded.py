#!/usr/bin/env python3
"""import_seeded.py <PROP> [X...] : copies /tmp/out-<PROP>/<X>.{diff,md},<X>_demo_test.go into /verif/seeded/<PROP>-<X>/"""
import sys, os, re, json, shutil
prop = sys.argv[1]
wave6 = "--wave6" in sys.argv
wave5 = "--wave5" in sys.argv or wave6
wave4 = "--wave4" in sys.argv or wave5
wave3 = "--wave3" in sys.argv or wave4
xs = [a for a in sys.argv[2:] if not a.startswith("--")] or ["A","B","C"]
for x0 in xs:
    x = x0
    src = (f"/tmp/o6-{prop}" if wave6 else f"/tmp/o5-{prop}" if wave5 else f"/tmp/o4-{prop}" if wave4 else f"/tmp/o3-{prop}") if wave3 else f"/tmp/out-{prop}"
    if not os.path.exists(f"{src}/{x}.diff") or not os.path.exists(f"{src}/{x}_demo_test.go"):
        print("skip", prop, x); continue
    name = {"A":"D","B":"E","C":"F"}[x] if wave3 else x
    if wave4 and os.path.exists(f"/verif/seeded/{prop}-D") and not os.path.exists(f"/verif/seeded/{prop}-D/.wave4"):
        name = {"A":"G","B":"H","C":"I"}[x]
    if wave6:
        used = sorted(n.split("-")[1] for n in os.listdir("/verif/seeded") if n.startswith(prop + "-"))
        base = ord(max(used)) + 1 if used else ord("A")
        if not hasattr(sys.modules[__name__], "_base"):
            sys.modules[__name__]._base = base
        name = chr(sys.modules[__name__]._base + "ABC".index(x))
    d = f"/verif/seeded/{prop}-{name}"
    os.makedirs(d, exist_ok=True)
    shutil.copy(f"{src}/{x}.diff", f"{d}/patch.diff")
    demo = open(f"{src}/{x}_demo_test.go").read()
    open(f"{d}/demo_test.go.txt","w").write(demo)
    first = demo.split("\n",1)[0]
    m = re.search(r"((?:[a-z]+/)*[a-z]+)/", first)
    pkgdir = None
    # package dir from the diff or the first line
    for cand in ["protocol/thrift/base","protocol/thrift/unknownfields","protocol/thrift/apache","protocol/thrift","protocol/ttheader","bufiox","container/strmap","internal/strstore","unsafex"]:
        if cand in first:
            pkgdir = cand; break
    if pkgdir is None:
        pm = re.search(r"^package (\w+)", demo, re.M)
        pkgdir = {"bufiox":"bufiox","thrift":"protocol/thrift","ttheader":"protocol/ttheader","strmap":"container/strmap","bufiox_test":"bufiox","thrift_test":"protocol/thrift","ttheader_test":"protocol/ttheader","strmap_test":"container/strmap"}[pm.group(1)]
    race = "-race" in first
    tm = re.search(r"-run\s+(\S+)", first)
    run = f"go test -vet=off -count=1 {'-race ' if race else ''}-run '{tm.group(1) if tm else 'Seeded'}' ."
    desc = open(f"{src}/{x}.md").read() if os.path.exists(f"{src}/{x}.md") else ""
    meta = {"property": prop, "id": f"{prop}-{name}", "wave": 6 if wave6 else 5 if wave5 else 4 if wave4 else 3 if wave3 else (2 if prop in ("C01","C06","C10","C12","C16","C17") else 1), "demo_file": "demo_test.go.txt", "demo_dir": pkgdir, "demo_run": run,
            "needs_to_manifest": desc.strip()[:3000], "origin": "independent sub-agent given only the property text and a scratch worktree" + (" plus one-line summaries of the first-round changes and a generic description of randomized model-based testing; asked for changes such a harness is likely to miss" if wave3 else "")}
    json.dump(meta, open(f"{d}/meta.json","w"), indent=1)
    if wave4:
        open(f"{d}/.wave4","w").write("")
    print("imported", d, pkgdir, run)
