package props

import (
	"fmt"

	"verif/harness/ref"
	"verif/harness/sim"
)

// malformedCase is a valid encoding that went through the fault transport.
type malformedCase struct {
	t         byte   // requested type tag (possibly corrupted itself)
	orig      []byte // encoding as sent (value + keyed trailing bytes)
	delivered []byte // bytes actually delivered
	valueLen  int    // length of the original value encoding
	desc      string
	verdict   ref.Verdict
	cut       int // -1: no truncation
	corrupted int
	pre       []byte // bytes after corruption, before truncation (for cut-point enumeration)
	baseDesc  string
}

var tagAlphabet = []byte{0x00, 0x01, 0x05, 0x07, 0x09, 0x10, 0x11, 0x12, 0x7f, 0x80, 0x8b, 0x8c, 0xff, 2, 3, 4, 6, 8, 10, 11, 12, 13, 14, 15}

func putU32(b []byte, v uint32) {
	b[0], b[1], b[2], b[3] = byte(v>>24), byte(v>>16), byte(v>>8), byte(v)
}
func getU32(b []byte) uint32 {
	return uint32(b[0])<<24 | uint32(b[1])<<16 | uint32(b[2])<<8 | uint32(b[3])
}

// genMalformed generates a value, encodes it and applies tape-chosen transport faults:
// nothing, truncation at a cut point (biased to structural boundaries), corruption of 1..3
// structural bytes (biased to boundary values), corruption of the requested type itself.
func genMalformed(c *sim.Ctx, st *sim.Stream, depthMax int) *malformedCase {
	o := &ref.GenOpts{BigString: st.Chance(1, 6), MaxDepth: 5}
	var v *ref.Value
	switch st.Pick(5, 3, 1, 1) {
	case 3:
		v = ref.GenWide(st, []int{63, 64, 65, 66, 70, 130, 200}[st.Choose(7)])
		c.Count("gen.wide")
	case 0:
		budget := []int{48, 300, 2000, 9000}[st.Pick(4, 3, 2, 1)]
		t := ref.GenType(st)
		if st.Chance(1, 2) {
			t = []byte{ref.TStruct, ref.TMap, ref.TList, ref.TSet, ref.TString}[st.Choose(5)]
		}
		v = ref.GenValue(st, t, o, 0, &budget)
	case 1:
		d := 1 + st.Choose(depthMax)
		if st.Chance(1, 2) {
			d = []int{62, 63, 64, 65, 66, 70}[st.Choose(6)]
			if d > depthMax {
				d = depthMax
			}
		}
		v = ref.GenChain(st, d, o)
		c.Count("gen.chain")
	default:
		et := []byte{ref.TBool, ref.TI16, ref.TI32, ref.TI64, ref.TDouble}[st.Choose(5)]
		n := st.Choose(600)
		if st.Chance(1, 2) {
			v = &ref.Value{T: ref.TList, ET: et}
			for j := 0; j < n; j++ {
				v.Elems = append(v.Elems, ref.GenScalar(st, et, o))
			}
		} else {
			v = &ref.Value{T: ref.TMap, KT: et, VT: ref.TByte}
			for j := 0; j < n; j++ {
				v.Elems = append(v.Elems, ref.GenScalar(st, et, o), ref.GenScalar(st, ref.TByte, o))
			}
		}
	}
	e := &ref.Encoder{Lay: true}
	e.Value(v)
	mc := &malformedCase{t: v.T, valueLen: len(e.Buf), cut: -1}
	enc := e.Buf
	if st.Chance(1, 2) {
		tr := []int{1, 3, 8, 40}[st.Choose(4)]
		enc = append(enc, sim.KeyedBytes(uint64(c.Index)*77+uint64(c.Seed), 0, tr)...)
	}
	mc.orig = enc
	d := append([]byte(nil), enc...)
	mode := st.Pick(2, 5, 5, 2)
	if mode == 2 || mode == 3 {
		// corruption of structural bytes
		var structural []ref.Mark
		for _, m := range e.Marks {
			if m.Kind == ref.MTypeTag || m.Kind == ref.MSize || m.Kind == ref.MFieldID {
				structural = append(structural, m)
			}
		}
		k := 1 + st.Pick(5, 2, 1)
		for i := 0; i < k && len(structural) > 0; i++ {
			m := structural[st.Choose(len(structural))]
			switch m.Kind {
			case ref.MTypeTag:
				nv := tagAlphabet[st.Choose(len(tagAlphabet))]
				mc.desc += fmt.Sprintf(" tag@%d:%#x->%#x", m.Off, d[m.Off], nv)
				d[m.Off] = nv
			case ref.MSize:
				old := getU32(d[m.Off:])
				var nv uint32
				switch st.Pick(4, 2, 3, 1, 3) {
				case 0:
					nv = []uint32{0x80000000, 0xffffffff, 0x7fffffff, 0, 1, 0x7f, 0x80, 0xff, 0x100, 0x10000, 0x1000000, 0x8000000, 0xfffffffe, 0x80000001}[st.Choose(14)]
				case 1:
					nv = old + 1
				case 2:
					nv = old - 1
				case 3:
					nv = uint32(st.Uint64())
				default:
					// counts whose product with an element width wraps around 2^32 or 2^31 and
					// lands on a small number (arithmetic done in the wrong width)
					w := []uint64{2, 3, 4, 5, 8, 9, 10, 12, 16}[st.Choose(9)]
					base := []uint64{1 << 32, 1 << 31, 1 << 33}[st.Pick(3, 2, 1)]
					r := uint64(st.Choose(64)) * uint64(1+st.Choose(2)*7)
					nv = uint32((base + r + w - 1) / w)
					if st.Chance(1, 2) {
						nv = uint32((base + uint64(old)*w) / w) // wraps exactly onto the real payload size
					}
				}
				mc.desc += fmt.Sprintf(" size@%d:%#x->%#x", m.Off, old, nv)
				putU32(d[m.Off:], nv)
			case ref.MFieldID:
				d[m.Off] = st.Byte()
				d[m.Off+1] = st.Byte()
				mc.desc += fmt.Sprintf(" fieldid@%d", m.Off)
			}
			mc.corrupted++
		}
		if mc.corrupted > 0 {
			c.Count("fault.fired.corruption")
		}
	}
	mc.pre = append([]byte(nil), d...)
	mc.baseDesc = mc.desc
	if mode == 1 || mode == 3 {
		// truncation: cut point biased to structural boundaries and inside the value
		var cut int
		switch st.Pick(3, 3, 1) {
		case 0:
			if len(e.Marks) > 0 {
				m := e.Marks[st.Choose(len(e.Marks))]
				cut = m.Off + st.Choose(m.Len+1)
			}
		case 1:
			cut = st.Choose(mc.valueLen + 1)
		default:
			cut = st.Choose(len(d) + 1)
		}
		if cut > len(d) {
			cut = len(d)
		}
		d = d[:cut]
		mc.cut = cut
		mc.desc += fmt.Sprintf(" cut@%d/%d", cut, len(enc))
		c.Count("fault.fired.truncation")
	}
	if st.Chance(1, 12) {
		// the requested type itself is hostile
		mc.t = tagAlphabet[st.Choose(len(tagAlphabet))]
		mc.desc += fmt.Sprintf(" reqtype=%#x", mc.t)
		c.Count("fault.fired.hostile_requested_type")
	}
	mc.delivered = d
	mc.verdict = ref.Parse(d, mc.t)
	if mc.desc == "" {
		mc.desc = " intact"
	}
	return mc
}
