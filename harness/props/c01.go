package props

import (
	"bytes"
	"fmt"
	"io"
	"math"

	"github.com/bytedance/gopkg/lang/mcache"
	"github.com/cloudwego/gopkg/bufiox"
	"github.com/cloudwego/gopkg/protocol/thrift"

	"verif/harness/ref"
	"verif/harness/sim"
)

func init() {
	sim.Register(&sim.Prop{
		ID: "C01", Run: runC01, QuickRuns: 120000, ThoroughRuns: 8000000,
		Rule:        "Each run: a record of 1..40 primitive items (bool, i8, i16, i32, i64, double by bit pattern, string/binary of boundary lengths with arbitrary content, field/list/set/map/message headers with any type byte, id and size) is (a) written with thrift.BufferWriter over bufiox.DefaultWriter over a simulated Sink with tape-chosen flush points and buffer growth inside the record, (b) read back with thrift.BufferReader over bufiox.DefaultReader over a simulated Source under a per-run fragmentation profile with Release between items, and (c) as a by-product pushed through the in-place writer, the append writer, the *Length functions and the buffer readers. Oracle: independent reference encoding (big-endian, 4-byte length prefixes).",
		Components:  realComponents,
		Probes:      []string{"string_straddles_4096", "flush_inside_record", "release_inside_record", "writer_growth_inside_record", "nan_payload"},
		Assumptions: []string{"value-space clauses (all 2^32 i32 values etc.) are sampled with boundary bias, not enumerated: that would be a different technique"},
	})
}

// item kinds
const (
	kBool = iota
	kByte
	kI16
	kI32
	kI64
	kDouble
	kString
	kBinary
	kFieldBegin
	kFieldStop
	kMapBegin
	kListBegin
	kSetBegin
	kMessageBegin
	numKinds
)

var kindNames = []string{"Bool", "Byte", "I16", "I32", "I64", "Double", "String", "Binary", "FieldBegin", "FieldStop", "MapBegin", "ListBegin", "SetBegin", "MessageBegin"}

type item struct {
	kind   int
	bits   uint64
	bin    []byte
	t1, t2 byte
	id     int16
	size   int
	mtype  int32
	seq    int32
	enc    []byte
}

func genItem(st *sim.Stream, o *ref.GenOpts) *item {
	it := &item{kind: st.Pick(2, 2, 2, 3, 3, 3, 4, 3, 3, 1, 2, 2, 2, 2)}
	e := &ref.Encoder{}
	switch it.kind {
	case kBool:
		it.bits = uint64(st.Choose(2))
		e.U8(byte(it.bits))
	case kByte:
		it.bits = ref.GenScalar(st, ref.TByte, o).Bits
		e.U8(byte(it.bits))
	case kI16:
		it.bits = ref.GenScalar(st, ref.TI16, o).Bits
		e.U16(uint16(it.bits))
	case kI32:
		it.bits = ref.GenScalar(st, ref.TI32, o).Bits
		e.U32(uint32(it.bits))
	case kI64, kDouble:
		it.bits = ref.GenScalar(st, ref.TI64, o).Bits
		e.U64(it.bits)
	case kString, kBinary:
		it.bin = ref.GenScalar(st, ref.TString, o).Bin
		e.LenBytes(it.bin)
	case kFieldBegin:
		it.t1 = byte(1 + st.Choose(255)) // any type byte except STOP
		it.id = int16(ref.GenScalar(st, ref.TI16, o).Bits)
		e.U8(it.t1)
		e.U16(uint16(it.id))
	case kFieldStop:
		e.U8(0)
	case kMapBegin:
		it.t1, it.t2 = st.Byte(), st.Byte()
		it.size = int(ref.GenScalar(st, ref.TI32, o).Bits & 0x7fffffff)
		e.U8(it.t1)
		e.U8(it.t2)
		e.U32(uint32(it.size))
	case kListBegin, kSetBegin:
		it.t1 = st.Byte()
		it.size = int(ref.GenScalar(st, ref.TI32, o).Bits & 0x7fffffff)
		e.U8(it.t1)
		e.U32(uint32(it.size))
	case kMessageBegin:
		it.bin = ref.GenScalar(st, ref.TString, &ref.GenOpts{}).Bin
		it.mtype = int32(ref.GenScalar(st, ref.TI16, o).Bits)
		it.seq = int32(ref.GenScalar(st, ref.TI32, o).Bits)
		e.Bytes(ref.EncodeMessageBegin(it.bin, it.mtype, it.seq))
	}
	it.enc = e.Buf
	return it
}

func (it *item) String() string {
	switch it.kind {
	case kString, kBinary:
		return fmt.Sprintf("%s(len %d)", kindNames[it.kind], len(it.bin))
	case kMessageBegin:
		return fmt.Sprintf("MessageBegin(name len %d, type %d, seq %d)", len(it.bin), it.mtype, it.seq)
	case kFieldBegin:
		return fmt.Sprintf("FieldBegin(%#x,%d)", it.t1, it.id)
	case kMapBegin, kListBegin, kSetBegin:
		return fmt.Sprintf("%s(%#x,%#x,%d)", kindNames[it.kind], it.t1, it.t2, it.size)
	}
	return fmt.Sprintf("%s(%#x)", kindNames[it.kind], it.bits)
}

func genRecord(c *sim.Ctx, st *sim.Stream, maxItems int) (items []*item, enc []byte) {
	o := &ref.GenOpts{BigString: true}
	n := 1 + st.Choose(maxItems)
	for i := 0; i < n; i++ {
		it := genItem(st, o)
		if (it.kind == kString || it.kind == kBinary) && (len(enc)%4096)+len(it.enc) > 4096 {
			c.Count("probe.string_straddles_4096")
		}
		if it.kind == kDouble && math.IsNaN(math.Float64frombits(it.bits)) {
			c.Count("probe.nan_payload")
		}
		items = append(items, it)
		enc = append(enc, it.enc...)
	}
	return
}

// writeItem writes one item with the stream writer.
func writeItem(w *thrift.BufferWriter, it *item) error {
	switch it.kind {
	case kBool:
		return w.WriteBool(it.bits == 1)
	case kByte:
		return w.WriteByte(int8(it.bits))
	case kI16:
		return w.WriteI16(int16(it.bits))
	case kI32:
		return w.WriteI32(int32(it.bits))
	case kI64:
		return w.WriteI64(int64(it.bits))
	case kDouble:
		return w.WriteDouble(math.Float64frombits(it.bits))
	case kString:
		return w.WriteString(string(it.bin))
	case kBinary:
		return w.WriteBinary(it.bin)
	case kFieldBegin:
		return w.WriteFieldBegin(thrift.TType(it.t1), it.id)
	case kFieldStop:
		return w.WriteFieldStop()
	case kMapBegin:
		return w.WriteMapBegin(thrift.TType(it.t1), thrift.TType(it.t2), it.size)
	case kListBegin:
		return w.WriteListBegin(thrift.TType(it.t1), it.size)
	case kSetBegin:
		return w.WriteSetBegin(thrift.TType(it.t1), it.size)
	case kMessageBegin:
		return w.WriteMessageBegin(string(it.bin), it.mtype, it.seq)
	}
	return nil
}

// readItem reads one item with the stream reader and returns a description of any mismatch.
func readItem(r *thrift.BufferReader, it *item) (mismatch string, err error) {
	switch it.kind {
	case kBool:
		v, e := r.ReadBool()
		if e == nil && v != (it.bits == 1) {
			mismatch = fmt.Sprintf("ReadBool=%v", v)
		}
		err = e
	case kByte:
		v, e := r.ReadByte()
		if e == nil && v != int8(it.bits) {
			mismatch = fmt.Sprintf("ReadByte=%d want %d", v, int8(it.bits))
		}
		err = e
	case kI16:
		v, e := r.ReadI16()
		if e == nil && v != int16(it.bits) {
			mismatch = fmt.Sprintf("ReadI16=%d want %d", v, int16(it.bits))
		}
		err = e
	case kI32:
		v, e := r.ReadI32()
		if e == nil && v != int32(it.bits) {
			mismatch = fmt.Sprintf("ReadI32=%d want %d", v, int32(it.bits))
		}
		err = e
	case kI64:
		v, e := r.ReadI64()
		if e == nil && v != int64(it.bits) {
			mismatch = fmt.Sprintf("ReadI64=%d want %d", v, int64(it.bits))
		}
		err = e
	case kDouble:
		v, e := r.ReadDouble()
		if e == nil && math.Float64bits(v) != it.bits {
			mismatch = fmt.Sprintf("ReadDouble bits=%#x want %#x", math.Float64bits(v), it.bits)
		}
		err = e
	case kString:
		v, e := r.ReadString()
		if e == nil && v != string(it.bin) {
			mismatch = fmt.Sprintf("ReadString len %d want len %d", len(v), len(it.bin))
		}
		err = e
	case kBinary:
		v, e := r.ReadBinary()
		if e == nil && !bytes.Equal(v, it.bin) {
			mismatch = fmt.Sprintf("ReadBinary len %d want len %d", len(v), len(it.bin))
		}
		err = e
	case kFieldBegin:
		t, id, e := r.ReadFieldBegin()
		if e == nil && (byte(t) != it.t1 || id != it.id) {
			mismatch = fmt.Sprintf("ReadFieldBegin=(%#x,%d) want (%#x,%d)", byte(t), id, it.t1, it.id)
		}
		err = e
	case kFieldStop:
		t, id, e := r.ReadFieldBegin()
		if e == nil && (t != 0 || id != 0) {
			mismatch = fmt.Sprintf("ReadFieldBegin on STOP=(%#x,%d)", byte(t), id)
		}
		err = e
	case kMapBegin:
		kt, vt, sz, e := r.ReadMapBegin()
		if e == nil && (byte(kt) != it.t1 || byte(vt) != it.t2 || sz != it.size) {
			mismatch = fmt.Sprintf("ReadMapBegin=(%#x,%#x,%d) want (%#x,%#x,%d)", byte(kt), byte(vt), sz, it.t1, it.t2, it.size)
		}
		err = e
	case kListBegin:
		et, sz, e := r.ReadListBegin()
		if e == nil && (byte(et) != it.t1 || sz != it.size) {
			mismatch = fmt.Sprintf("ReadListBegin=(%#x,%d) want (%#x,%d)", byte(et), sz, it.t1, it.size)
		}
		err = e
	case kSetBegin:
		et, sz, e := r.ReadSetBegin()
		if e == nil && (byte(et) != it.t1 || sz != it.size) {
			mismatch = fmt.Sprintf("ReadSetBegin=(%#x,%d) want (%#x,%d)", byte(et), sz, it.t1, it.size)
		}
		err = e
	case kMessageBegin:
		name, tp, seq, e := r.ReadMessageBegin()
		if e == nil && (name != string(it.bin) || tp != it.mtype&0xffff || seq != it.seq) {
			mismatch = fmt.Sprintf("ReadMessageBegin=(len %d,%d,%d) want (len %d,%d,%d)", len(name), tp, seq, len(it.bin), it.mtype&0xffff, it.seq)
		}
		err = e
	}
	return
}

func runC01(c *sim.Ctx) {
	cfg := c.Cfg
	// the span-cache switch is process-wide configuration: every scenario runs under both
	thrift.SetSpanCache(cfg.Chance(1, 2))
	defer thrift.SetSpanCache(false)
	c.SetupAlloc(allocCfg(cfg, false))
	st := c.Tape.S("ops")
	items, enc := genRecord(c, st, 40)
	co := newCoTenant(c, cfg.Chance(1, 3))
	c.Tracef("cfg  record of %d items, %d bytes", len(items), len(enc))

	// (a) stream writer -> Sink
	sink := sim.NewSink(c, "w")
	var dw bufiox.Writer
	var target []byte
	bytesBacked := st.Chance(1, 5)
	if bytesBacked {
		// bytes-backed writer: a single flush at the end publishes the slice
		dw = bufiox.NewBytesWriter(&target)
		c.Count("cfg.writer.bytes")
	} else {
		dw = bufiox.NewDefaultWriter(sink)
	}
	bw := thrift.NewBufferWriter(dw)
	flushed := 0
	for i, it := range items {
		c.Ops++
		mall := mcache.SimGetStats().Mallocs
		var err error
		c.GuardNoOOM("Write"+kindNames[it.kind]+"/BufferWriter", func() { err = writeItem(bw, it) })
		if err != nil {
			c.Fail("WRITE_ERROR", "Write"+kindNames[it.kind]+"/BufferWriter", sim.F{}, "item %d %s: %v", i, it, err)
		}
		if i > 0 && mcache.SimGetStats().Mallocs != mall {
			c.Count("probe.writer_growth_inside_record")
			c.NonTriv = true
		}
		c.Abs(0x100000 | uint32(it.kind)<<8 | sizeBucket(len(it.enc)))
		if !bytesBacked && st.Chance(1, 6) {
			c.GuardNoOOM("Flush/DefaultWriter", func() { err = dw.Flush() })
			if err != nil {
				c.Fail("WRITE_ERROR", "Flush/DefaultWriter", sim.F{}, "flush: %v", err)
			}
			if i+1 < len(items) {
				c.Count("probe.flush_inside_record")
			}
			flushed++
			co.step()
		}
	}
	var err error
	c.GuardNoOOM("Flush/DefaultWriter", func() { err = dw.Flush() })
	if err != nil {
		c.Fail("WRITE_ERROR", "Flush/DefaultWriter", sim.F{}, "flush: %v", err)
	}
	bw.Recycle()
	if bytesBacked {
		sink.Got = target
	}
	if d := firstDiff(sink.Got, enc); d >= 0 {
		// locate the item
		off, which := 0, -1
		for i, it := range items {
			if d < off+len(it.enc) {
				which = i
				break
			}
			off += len(it.enc)
		}
		name := "?"
		if which >= 0 {
			name = kindNames[items[which].kind]
		}
		c.Fail("WIRE_MISMATCH", "Write"+name+"/BufferWriter", sim.F{"len_delta": len(sink.Got) - len(enc)},
			"the stream writer produced %d bytes, the reference encoding has %d; first difference at offset %d (item %d: %v)", len(sink.Got), len(enc), d, which, items[max0(which)])
	}

	// (b) Source -> stream reader
	scfg := sim.RandomSourceCfg(cfg, len(enc))
	src := sim.NewSource(c, "r", enc, scfg)
	var dr bufiox.Reader
	if st.Chance(1, 5) {
		flat := make([]byte, len(enc), len(enc)+st.Choose(3)*33)
		copy(flat, enc)
		dr = bufiox.NewBytesReader(flat)
		c.Count("cfg.reader.bytes")
	} else {
		dr = bufiox.NewDefaultReader(src)
	}
	br := thrift.NewBufferReader(dr)
	c.Tracef("cfg  reading back: %s", scfg.String())
	for i, it := range items {
		c.Ops++
		src.BeginCall(len(it.enc))
		before := br.Readn()
		var mm string
		var err error
		site := "Read" + kindNames[it.kind] + "/BufferReader"
		if it.kind == kFieldStop {
			site = "ReadFieldBegin/BufferReader"
		}
		c.GuardNoOOM(site, func() { mm, err = readItem(br, it) })
		if err != nil {
			c.Fail("READ_ERROR", site, sim.F{}, "item %d %s of a complete stream failed: %v", i, it, err)
		}
		if mm != "" {
			c.Fail("VALUE_MISMATCH", site, sim.F{}, "item %d %s decoded wrongly: %s", i, it, mm)
		}
		if d := br.Readn() - before; d != int64(len(it.enc)) {
			c.Fail("CONSUMED_LEN", site, sim.F{"delta": d - int64(len(it.enc))}, "item %d %s consumed %d bytes, its encoding has %d", i, it, d, len(it.enc))
		}
		c.Abs(0x200000 | uint32(it.kind)<<8 | sizeBucket(len(it.enc)))
		c.Ev(uint64(it.kind), uint64(len(it.enc)))
		if st.Chance(1, 5) {
			c.GuardNoOOM("Release/DefaultReader", func() { dr.Release(nil) })
			if i+1 < len(items) {
				c.Count("probe.release_inside_record")
			}
			co.step()
		}
	}
	// nothing beyond the record
	if _, err := dr.Next(1); err == nil {
		c.Fail("CONSUMED_LEN", "end/BufferReader", sim.F{}, "bytes remain after reading the whole record")
	} else if !(err == scfg.Err || err == io.EOF) && false {
		_ = err
	}
	br.Recycle()
	c.GuardNoOOM("Release/DefaultReader", func() { dr.Release(nil) })

	// (c) by-product: in-place writer, append writer, length functions, buffer readers
	byProductC01(c, items, enc)
	co.finish()
	mcache.SimCheckPoison()
}

func max0(i int) int {
	if i < 0 {
		return 0
	}
	return i
}

func byProductC01(c *sim.Ctx, items []*item, enc []byte) {
	B := thrift.Binary
	var app []byte
	inplace := make([]byte, len(enc)+16)
	off := 0
	total := 0
	for i, it := range items {
		var n, l int
		site := kindNames[it.kind] + "/Binary"
		c.GuardNoOOM("Write"+site, func() {
			b := inplace[off:]
			switch it.kind {
			case kBool:
				n, l = B.WriteBool(b, it.bits == 1), B.BoolLength()
				app = B.AppendBool(app, it.bits == 1)
			case kByte:
				n, l = B.WriteByte(b, int8(it.bits)), B.ByteLength()
				app = B.AppendByte(app, int8(it.bits))
			case kI16:
				n, l = B.WriteI16(b, int16(it.bits)), B.I16Length()
				app = B.AppendI16(app, int16(it.bits))
			case kI32:
				n, l = B.WriteI32(b, int32(it.bits)), B.I32Length()
				app = B.AppendI32(app, int32(it.bits))
			case kI64:
				n, l = B.WriteI64(b, int64(it.bits)), B.I64Length()
				app = B.AppendI64(app, int64(it.bits))
			case kDouble:
				f := math.Float64frombits(it.bits)
				n, l = B.WriteDouble(b, f), B.DoubleLength()
				app = B.AppendDouble(app, f)
			case kString:
				s := string(it.bin)
				n, l = B.WriteString(b, s), B.StringLength(s)
				app = B.AppendString(app, s)
				if B.StringLengthNocopy(s) != l {
					l = -1
				}
			case kBinary:
				n, l = B.WriteBinary(b, it.bin), B.BinaryLength(it.bin)
				app = B.AppendBinary(app, it.bin)
				if B.BinaryLengthNocopy(it.bin) != l {
					l = -1
				}
			case kFieldBegin:
				n, l = B.WriteFieldBegin(b, thrift.TType(it.t1), it.id), B.FieldBeginLength()
				app = B.AppendFieldBegin(app, thrift.TType(it.t1), it.id)
			case kFieldStop:
				n, l = B.WriteFieldStop(b), B.FieldStopLength()
				app = B.AppendFieldStop(app)
			case kMapBegin:
				n, l = B.WriteMapBegin(b, thrift.TType(it.t1), thrift.TType(it.t2), it.size), B.MapBeginLength()
				app = B.AppendMapBegin(app, thrift.TType(it.t1), thrift.TType(it.t2), it.size)
			case kListBegin:
				n, l = B.WriteListBegin(b, thrift.TType(it.t1), it.size), B.ListBeginLength()
				app = B.AppendListBegin(app, thrift.TType(it.t1), it.size)
			case kSetBegin:
				n, l = B.WriteSetBegin(b, thrift.TType(it.t1), it.size), B.SetBeginLength()
				app = B.AppendSetBegin(app, thrift.TType(it.t1), it.size)
			case kMessageBegin:
				s := string(it.bin)
				n, l = B.WriteMessageBegin(b, s, it.mtype, it.seq), B.MessageBeginLength(s)
				app = B.AppendMessageBegin(app, s, it.mtype, it.seq)
			}
		})
		if n != len(it.enc) || l != len(it.enc) {
			c.Fail("LENGTH_MISMATCH", "Write"+site, sim.F{}, "item %d %s: in-place writer returned %d, length function %d, reference %d", i, it, n, l, len(it.enc))
		}
		off += n
		total += l
	}
	if d := firstDiff(inplace[:off], enc); d >= 0 {
		c.Fail("WIRE_MISMATCH", "inplace/Binary", sim.F{}, "the in-place writers differ from the reference encoding at offset %d", d)
	}
	if d := firstDiff(app, enc); d >= 0 {
		c.Fail("WIRE_MISMATCH", "append/Binary", sim.F{}, "the append writers differ from the reference encoding at offset %d", d)
	}
	// buffer readers
	off = 0
	for i, it := range items {
		b := enc[off:]
		var mm string
		var l int
		var err error
		site := "Read" + kindNames[it.kind] + "/Binary"
		c.GuardNoOOM(site, func() {
			switch it.kind {
			case kBool:
				var v bool
				v, l, err = B.ReadBool(b)
				if v != (it.bits == 1) {
					mm = "bool"
				}
			case kByte:
				var v int8
				v, l, err = B.ReadByte(b)
				if v != int8(it.bits) {
					mm = "byte"
				}
			case kI16:
				var v int16
				v, l, err = B.ReadI16(b)
				if v != int16(it.bits) {
					mm = "i16"
				}
			case kI32:
				var v int32
				v, l, err = B.ReadI32(b)
				if v != int32(it.bits) {
					mm = "i32"
				}
			case kI64:
				var v int64
				v, l, err = B.ReadI64(b)
				if v != int64(it.bits) {
					mm = "i64"
				}
			case kDouble:
				var v float64
				v, l, err = B.ReadDouble(b)
				if math.Float64bits(v) != it.bits {
					mm = "double"
				}
			case kString:
				var v string
				v, l, err = B.ReadString(b)
				if v != string(it.bin) {
					mm = "string"
				}
			case kBinary:
				var v []byte
				v, l, err = B.ReadBinary(b)
				if !bytes.Equal(v, it.bin) {
					mm = "binary"
				}
			case kFieldBegin, kFieldStop:
				var t thrift.TType
				var id int16
				t, id, l, err = B.ReadFieldBegin(b)
				if byte(t) != it.t1 || id != it.id {
					mm = "fieldbegin"
				}
			case kMapBegin:
				var kt, vt thrift.TType
				var sz int
				kt, vt, sz, l, err = B.ReadMapBegin(b)
				if byte(kt) != it.t1 || byte(vt) != it.t2 || sz != it.size {
					mm = "mapbegin"
				}
			case kListBegin:
				var et thrift.TType
				var sz int
				et, sz, l, err = B.ReadListBegin(b)
				if byte(et) != it.t1 || sz != it.size {
					mm = "listbegin"
				}
			case kSetBegin:
				var et thrift.TType
				var sz int
				et, sz, l, err = B.ReadSetBegin(b)
				if byte(et) != it.t1 || sz != it.size {
					mm = "setbegin"
				}
			case kMessageBegin:
				var name string
				var tp, seq int32
				name, tp, seq, l, err = B.ReadMessageBegin(b)
				if name != string(it.bin) || tp != it.mtype&0xffff || seq != it.seq {
					mm = "messagebegin"
				}
			}
		})
		if err != nil || mm != "" || l != len(it.enc) {
			c.Fail("VALUE_MISMATCH", site, sim.F{"err": err != nil, "len_delta": l - len(it.enc)}, "item %d %s: buffer reader err=%v mismatch=%q consumed=%d (reference %d)", i, it, err, mm, l, len(it.enc))
		}
		off += len(it.enc)
	}
}
