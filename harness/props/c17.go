package props

import (
	"errors"
	"fmt"
	"io"

	"github.com/bytedance/gopkg/lang/mcache"
	"github.com/cloudwego/gopkg/bufiox"
	"github.com/cloudwego/gopkg/protocol/thrift"

	"verif/harness/ref"
	"verif/harness/sim"
)

func init() {
	sim.Register(&sim.Prop{
		ID: "C17", Run: runC17, QuickRuns: 200000, ThoroughRuns: 12000000,
		Rule:       "Each run: (A, decided) a record or value tree is delivered by a simulated Source that fails with one of five injected error values (io.EOF, io.ErrUnexpectedEOF, a comparable custom error, a pointer-typed error, a wrapped error) at a tape-chosen offset inside an item, with per-run fragmentation; the failing thrift.BufferReader call must return an error for which errors.Is(err, injected) holds; (B, by-product) the malformed-input generator of C08 feeds Binary.Skip, the Binary scalar/string/header readers and ReadMessageBegin, whose failures must be protocol exceptions with the type id the reference classifier allows for the first failing node.",
		Components: realComponents,
		Probes:     []string{"stream_error.io.EOF", "stream_error.io.ErrUnexpectedEOF", "stream_error.custom", "stream_error.pointer-typed", "stream_error.wrapped", "stream_error.wrapped-EOF", "stream_error.pointer-typed-wrapping-EOF", "stream_error.timeout", "cause.INVALID_DATA", "cause.NEGATIVE_SIZE", "cause.BAD_VERSION", "cause.DEPTH_LIMIT", "skip_failed_on_source_error"},
	})
}

const (
	exInvalidData  = 1
	exNegativeSize = 2
	exBadVersion   = 4
	exDepthLimit   = 6
)

func runC17(c *sim.Ctx) {
	cfg := c.Cfg
	a := allocCfg(cfg, false)
	a.Ceiling = c08Ceiling
	c.SetupAlloc(a)
	st := c.Tape.S("ops")
	// the span-cache switch is a configuration of the decoders: failures must be classified
	// the same way under both settings
	span := cfg.Chance(1, 2)
	thrift.SetSpanCache(span)
	defer thrift.SetSpanCache(false)
	if span {
		c.Count("cfg.span_cache_on")
	}
	heldErrors = heldErrors[:0]
	n := 1 + cfg.Choose(4)
	for k := 0; k < n; k++ {
		streamErrorClause(c, cfg, st)
		inMemoryClause(c, st)
		recheckHeld(c)
	}
	mcache.SimCheckPoison()
}

// An error value returned to the caller is the caller's: it must keep matching the source's
// error after the reader that produced it was recycled and reused for another stream.
type heldError struct {
	err, injected error
	site          string
}

var heldErrors []heldError

func recheckHeld(c *sim.Ctx) {
	for _, h := range heldErrors {
		if !errors.Is(h.err, h.injected) {
			c.Fail("ERRTYPE", h.site, sim.F{"injected": errKind(h.injected), "stream": true, "later": true},
				"an error returned earlier (it matched the source's error %v then) no longer matches it after the reader was recycled and reused: now %v", h.injected, h.err)
		}
	}
	if len(heldErrors) > 0 {
		c.Count("probe.held_error_rechecked")
	}
}

func checkIs(c *sim.Ctx, site string, err, injected error, what string) {
	if err == nil {
		c.Fail("ERR_MISSING", site, sim.F{"injected": errKind(injected)}, "%s succeeded although the source failed with %v before delivering its bytes", what, injected)
	}
	if !errors.Is(err, injected) {
		c.Fail("ERRTYPE", site, sim.F{"injected": errKind(injected), "stream": true}, "%s failed with %v (%T), which does not match the source's error %v under errors.Is", what, err, err, injected)
	}
	if _, ok := injected.(*sim.PtrEOFError); ok {
		var pe *sim.PtrEOFError
		if !errors.As(err, &pe) || pe != injected {
			c.Fail("ERRTYPE", site, sim.F{"injected": "pointer-typed-wrapping-EOF/As", "stream": true}, "%s failed with %v: the source's own error value is no longer reachable with errors.As", what, err)
		}
	}
	if (injected == sim.ErrWrappedEOF || errKind(injected) == "pointer-typed-wrapping-EOF") && !errors.Is(err, io.EOF) {
		c.Fail("ERRTYPE", site, sim.F{"injected": "wrapped-EOF-chain", "stream": true}, "%s failed with %v: io.EOF, which the source's error wraps, is no longer reachable", what, err)
	}
	if injected == sim.ErrWrapped && !errors.Is(err, io.ErrClosedPipe) {
		c.Fail("ERRTYPE", site, sim.F{"injected": "wrapped-chain", "stream": true}, "%s failed with %v: the cause chain of the source's error (io.ErrClosedPipe) is no longer reachable", what, err)
	}
	c.Count("probe.stream_error." + errKind(injected))
	if len(heldErrors) < 8 {
		heldErrors = append(heldErrors, heldError{err, injected, site})
	}
}

// streamErrorClause: failures of the stream reader caused by the underlying reader wrap
// that reader's error so that it stays matchable with errors.Is.
// errWrapsProto is a source error that merely wraps a protocol exception (a lower layer that
// decorates what it got from a peer): it is the source's own error value all the same.
var errWrapsProto = fmt.Errorf("sim: frame 7: %w", thrift.NewProtocolException(4, "inner bad version"))

func streamErrorClause(c *sim.Ctx, cfg, st *sim.Stream) {
	injected := sim.TermError(st.Choose(sim.NumTermErrors))
	if st.Chance(1, 10) {
		injected = errWrapsProto
	}
	if c.Tier == "thorough" && st.Chance(1, 4000) {
		// a value beyond 10 MiB whose source fails late in the payload
		n := 10<<20 + 1 + st.Choose(1<<20)
		e := &ref.Encoder{}
		e.U32(uint32(n))
		e.Bytes(sim.KeyedBytes(uint64(c.Index), 0, n))
		cut := 4 + 10<<20 + st.Choose(n-10<<20)
		scfg := sim.RandomSourceCfg(cfg, len(e.Buf))
		scfg.ErrAt, scfg.Err = cut, injected
		src := sim.NewSource(c, "big", e.Buf, scfg)
		src.BeginCall(len(e.Buf))
		dr := bufiox.NewDefaultReader(src)
		br := thrift.NewBufferReader(dr)
		var err error
		c.Guard("ReadBinary/BufferReader", func() { _, err = br.ReadBinary() })
		c.Count("probe.late_failure_in_value_beyond_10MiB")
		checkIs(c, "ReadBinary/BufferReader", err, injected, "Binary(11 MiB)")
		br.Recycle()
		dr.Release(nil)
		return
	}
	if st.Chance(1, 3) {
		// a value tree skipped with BufferReader.Skip
		o := &ref.GenOpts{BigString: st.Chance(1, 5), MaxDepth: 5}
		budget := 600
		v := ref.GenValue(st, ref.GenType(st), o, 0, &budget)
		enc := ref.Encode(v)
		if len(enc) == 0 {
			return
		}
		cut := st.Choose(len(enc))
		scfg := sim.RandomSourceCfg(cfg, len(enc))
		scfg.ErrAt, scfg.Err = cut, injected
		src := sim.NewSource(c, "a", enc, scfg)
		src.BeginCall(len(enc))
		dr := bufiox.NewDefaultReader(src)
		br := thrift.NewBufferReader(dr)
		var err error
		c.Ops++
		c.GuardNoOOM("Skip/BufferReader", func() { err = br.Skip(thrift.TType(v.T)) })
		c.Tracef("A: Skip(type %d) of a %d-byte value, source fails with %v at %d => %v", v.T, len(enc), injected, cut, err)
		if err != nil && !src.Issued {
			// the call failed before the source reported its error: not a failure caused by
			// the underlying reader, so this clause says nothing about it
			c.Count("probe.failure_not_caused_by_source")
			br.Recycle()
			dr.Release(nil)
			return
		}
		checkIs(c, "Skip/BufferReader", err, injected, "Skip")
		c.Count("probe.skip_failed_on_source_error")
		c.NonTriv = true
		c.Abs(0x300000 | uint32(v.T)<<8 | uint32(errKindCode(injected)))
		br.Recycle()
		dr.Release(nil)
		return
	}
	items, enc := genRecord(c, st, 12)
	cut := st.Choose(len(enc))
	scfg := sim.RandomSourceCfg(cfg, len(enc))
	scfg.ErrAt, scfg.Err = cut, injected
	src := sim.NewSource(c, "a", enc, scfg)
	dr := bufiox.NewDefaultReader(src)
	br := thrift.NewBufferReader(dr)
	off := 0
	for i, it := range items {
		c.Ops++
		src.BeginCall(len(it.enc))
		site := "Read" + kindNames[it.kind] + "/BufferReader"
		if it.kind == kFieldStop {
			site = "ReadFieldBegin/BufferReader"
		}
		var err error
		c.GuardNoOOM(site, func() { _, err = readItem(br, it) })
		if off+len(it.enc) <= cut {
			if err != nil {
				// a complete item failed: C01's business; stop here
				c.Fail("READ_ERROR", site, sim.F{}, "item %d %s lies completely before the source's error but failed: %v", i, it, err)
			}
			off += len(it.enc)
			if st.Chance(1, 6) {
				dr.Release(nil)
			}
			continue
		}
		c.Tracef("A: %s spans the cut at %d (item at %d..%d), source fails with %v => %v", it, cut, off, off+len(it.enc), injected, err)
		if err != nil && !src.Issued {
			c.Count("probe.failure_not_caused_by_source")
			break
		}
		checkIs(c, site, err, injected, it.String())
		c.NonTriv = true
		c.Abs(0x310000 | uint32(it.kind)<<8 | uint32(errKindCode(injected)))
		c.Ev(uint64(it.kind), uint64(cut-off))
		break
	}
	br.Recycle()
	dr.Release(nil)
}

func errKindCode(err error) int {
	for i := 0; i < sim.NumTermErrors; i++ {
		if errKind(sim.TermError(i)) == errKind(err) {
			return i
		}
	}
	return 9
}

func asProto(c *sim.Ctx, site string, err error, facts sim.F, what string) int32 {
	pe, ok := err.(*thrift.ProtocolException)
	if !ok || pe == nil {
		c.Fail("ERRTYPE", site, facts, "%s failed with %v (%T), which is not a protocol exception", what, err, err)
	}
	return pe.TypeId()
}

func requireCause(c *sim.Ctx, site string, err error, allowed []int32, cause, what string) {
	facts := sim.F{"cause": cause, "stream": false}
	id := asProto(c, site, err, facts, what)
	for _, a := range allowed {
		if a == id {
			c.Count("probe.cause." + cause)
			return
		}
	}
	facts["got"] = id
	c.Fail("ERRTYPE", site, facts, "%s failed with type id %d (%v); the cause is %s, allowed type ids %v", what, id, err, cause, allowed)
}

// inMemoryClause: failures of the in-memory functions are protocol exceptions whose type id
// names the cause.
func inMemoryClause(c *sim.Ctx, st *sim.Stream) {
	B := thrift.Binary
	switch st.Pick(5, 3, 2) {
	case 0:
		mc := genMalformed(c, st, 70)
		v := mc.verdict
		var err error
		c.Ops++
		c.Guard("Skip/Binary", func() { _, err = B.Skip(append([]byte(nil), mc.delivered...), thrift.TType(mc.t)) })
		if err == nil {
			return // acceptance is C08's business
		}
		var allowed []int32
		cause := ""
		kindCause := func() (int32, string) {
			switch v.Kind {
			case ref.Negative:
				return exNegativeSize, "NEGATIVE_SIZE"
			default:
				return exInvalidData, "INVALID_DATA"
			}
		}
		switch {
		case v.Kind == ref.OK && v.Depth >= 64:
			allowed, cause = []int32{exDepthLimit}, "DEPTH_LIMIT"
		case v.Kind == ref.OK:
			if v.DontCare {
				allowed, cause = []int32{exInvalidData}, "INVALID_DATA"
			} else {
				return // rejected a valid value: C08's business
			}
		case v.MaxDepth >= 66, v.MaxDepth == 65 && v.Depth < 65:
			// the reference walked into (and past the header of) a 65th nested container:
			// the implementation must have hit its depth limit there
			allowed, cause = []int32{exDepthLimit}, "DEPTH_LIMIT"
		case v.MaxDepth == 65:
			// the failing node is the 65th nested container itself: it is both out of bytes
			// (or malformed) and beyond the limit - both causes are accepted
			id, nm := kindCause()
			allowed, cause = []int32{exDepthLimit, id}, nm
		case v.MaxDepth == 64:
			id, nm := kindCause()
			allowed, cause = []int32{id, exDepthLimit}, nm
		default:
			id, nm := kindCause()
			allowed, cause = []int32{id}, nm
			if v.DontCare {
				allowed = append(allowed, exInvalidData)
			}
		}
		c.Tracef("B: Binary.Skip(type %#x):%s => reference %s depth %d/%d; got %v", mc.t, mc.desc, ref.KindNames[v.Kind], v.Depth, v.MaxDepth, err)
		requireCause(c, "Skip/Binary", err, allowed, cause, "Binary.Skip")
		c.NonTriv = true
		c.Abs(0x320000 | uint32(v.Kind)<<8 | uint32(allowed[0]))
	case 1:
		// string / binary / scalars / headers on truncated or negative-length buffers
		o := &ref.GenOpts{}
		it := genItem(st, o)
		enc := append([]byte(nil), it.enc...)
		neg := false
		if (it.kind == kString || it.kind == kBinary) && st.Chance(1, 3) {
			putU32(enc, []uint32{0x80000000, 0xffffffff, 0xfffffff0}[st.Choose(3)])
			neg = true
		} else {
			if len(enc) == 0 {
				return
			}
			enc = enc[:st.Choose(len(enc))]
		}
		if it.kind == kMessageBegin {
			return
		}
		if it.kind == kFieldStop {
			enc = enc[:0]
		}
		var err error
		site := "Read" + kindNames[it.kind] + "/Binary"
		c.Ops++
		c.Guard(site, func() {
			switch it.kind {
			case kBool:
				_, _, err = B.ReadBool(enc)
			case kByte:
				_, _, err = B.ReadByte(enc)
			case kI16:
				_, _, err = B.ReadI16(enc)
			case kI32:
				_, _, err = B.ReadI32(enc)
			case kI64:
				_, _, err = B.ReadI64(enc)
			case kDouble:
				_, _, err = B.ReadDouble(enc)
			case kString:
				_, _, err = B.ReadString(enc)
			case kBinary:
				_, _, err = B.ReadBinary(enc)
			case kFieldBegin, kFieldStop:
				_, _, _, err = B.ReadFieldBegin(enc)
			case kMapBegin:
				_, _, _, _, err = B.ReadMapBegin(enc)
			case kListBegin:
				_, _, _, err = B.ReadListBegin(enc)
			case kSetBegin:
				_, _, _, err = B.ReadSetBegin(enc)
			}
		})
		if err == nil {
			c.Fail("ERR_MISSING", site, sim.F{"negative": neg}, "%s succeeded on a %d-byte buffer (encoding has %d bytes, negative length: %v)", it, len(enc), len(it.enc), neg)
		}
		if neg && len(enc) >= 4 {
			requireCause(c, site, err, []int32{exNegativeSize}, "NEGATIVE_SIZE", kindNames[it.kind])
		} else {
			requireCause(c, site, err, []int32{exInvalidData}, "INVALID_DATA", kindNames[it.kind])
		}
		c.NonTriv = true
		c.Abs(0x330000 | uint32(it.kind)<<8)
	case 2:
		// message-begin: truncation and version
		name := ref.GenScalar(st, ref.TString, &ref.GenOpts{}).Bin
		enc := ref.EncodeMessageBegin(name, int32(st.Choose(5)), int32(st.Choose(1000)))
		// truncation, a damaged version word, or both
		mode := st.Pick(2, 2, 3)
		if mode != 0 {
			enc[st.Choose(2)] ^= byte(1 << uint(st.Choose(8)))
		}
		if mode != 1 {
			cut := st.Choose(len(enc))
			if st.Chance(1, 2) && len(enc) > 9 {
				cut = 3 + st.Choose(7) // around the first word and the name-length word
			}
			enc = enc[:cut]
		}
		env := ref.ParseMessageBegin(enc)
		var err error
		c.Ops++
		c.Guard("ReadMessageBegin/Binary", func() { _, _, _, _, err = B.ReadMessageBegin(enc) })
		switch env.Kind {
		case ref.EnvTruncated:
			if err == nil {
				c.Fail("ERR_MISSING", "ReadMessageBegin/Binary", sim.F{}, "a truncated header was accepted")
			}
			requireCause(c, "ReadMessageBegin/Binary", err, []int32{exInvalidData}, "INVALID_DATA", "ReadMessageBegin")
		case ref.EnvBadVersion:
			if err == nil {
				c.Fail("ERR_MISSING", "ReadMessageBegin/Binary", sim.F{}, "a header without the version marker was accepted")
			}
			requireCause(c, "ReadMessageBegin/Binary", err, []int32{exBadVersion}, "BAD_VERSION", "ReadMessageBegin")
		}
		c.NonTriv = true
		c.Abs(0x340000 | uint32(env.Kind))
	}
}
