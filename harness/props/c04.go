package props

import (
	"math"

	"github.com/bytedance/gopkg/lang/mcache"
	"github.com/cloudwego/gopkg/bufiox"

	"verif/harness/sim"
)

var realComponents = map[string]string{
	"bufiox.DefaultReader/BytesReader/DefaultWriter/BytesWriter": "real code from /repo working tree",
	"protocol/thrift, protocol/ttheader, container/strmap":       "real code from /repo working tree",
	"bytedance/gopkg/lang/span, sync.Pool, Go runtime":           "real",
	"io.Reader given to the readers":                             "stub: sim.Source (seeded fragmentation, zero reads, stall, terminal error with/without data)",
	"io.Writer given to the writers":                             "stub: sim.Sink (fails at k-th write with a partial accept)",
	"bytedance/gopkg/lang/mcache, dirtmake":                      "stub in ledger/fence mode (overlay shim: free lists, junk fill, poison, ledger, guard pages, memory ceiling); original code in real mode",
	"goroutine scheduler":                                        "stub: seeded cooperative hand-off (one P, one released task)",
}

func init() {
	sim.Register(&sim.Prop{
		ID: "C04", Run: runC04, QuickRuns: 150000, ThoroughRuns: 3000000,
		Rule:       "Each run: one bufiox reader (io.Reader-backed over a simulated Source, or bytes-backed) over a stream with position-dependent content, 1..300 operations from {Next,Peek,Skip,ReadBinary,Release,negative counts} with boundary-valued sizes, a per-run source delivery profile (chunking, zero reads, stall, terminal error kind/offset, data with error), allocator mode and co-tenant; every result is compared with a cursor-over-bytes model, then the stream is drained.",
		Components: realComponents,
		Probes: []string{"reader_alloc_or_growth", "release_with_unread_tail", "release_with_nothing_buffered", "request_satisfied_after_100_or_more_reads",
			"more_than_requested_with_error", "error_at_4096_multiple", "readbinary_larger_than_left", "failure_under_stall", "bytes_reader_growth", "release_with_error_argument", "huge_count_after_failure"},
	})
}

// sizeAlphabet draws a boundary-valued request size relative to the current situation.
func pickSize(st *sim.Stream, remaining int, bufHint int) int {
	if remaining > 1<<20 && st.Chance(1, 2) {
		// megabyte-scale requests on megabyte-scale streams, leaving a sizeable unread tail
		return []int{remaining - 5000 - st.Choose(200000), 1<<20 + st.Choose(1<<20), remaining / 2, 300000}[st.Choose(4)]
	}
	if bigValuesProfile && st.Chance(1, 3) {
		return 33000 + st.Choose(30000) // lands in the 64 KiB buffer class
	}
	switch st.Pick(6, 4, 4, 3, 3, 3, 2, 2, 1) {
	case 0:
		return []int{1, 0, 2, 3, 4, 8, 14, 16}[st.Choose(8)]
	case 1:
		return 1 + st.Choose(64)
	case 2:
		return []int{remaining, remaining - 1, remaining + 1, remaining / 2, remaining + 4096}[st.Choose(5)]
	case 3:
		return []int{4096, 4095, 4097, 8192, 8191, 8193, 2048, 16384, 16385}[st.Choose(9)]
	case 4:
		return 100 + st.Choose(200) // > 100 chunks' worth for 1-byte delivery
	case 5:
		return 1 + st.Choose(5000)
	case 6:
		return []int{bufHint, bufHint - 1, bufHint + 1}[st.Choose(3)]
	case 7:
		return 1 + st.Choose(40000)
	default:
		return []int{70000, 33000, 12000, 131073, 300000}[st.Choose(5)]
	}
}

func streamLen(st *sim.Stream, thorough bool) int {
	if st.Chance(1, 150) {
		return 1<<20 + st.Choose(2<<20) // a multi-megabyte stream: buffers beyond every threshold
	}
	switch st.Pick(3, 4, 4, 3, 1) {
	case 0:
		return st.Choose(65)
	case 1:
		return []int{4096, 4095, 4097, 8192, 8193, 12288, 100, 1000}[st.Choose(8)] + st.Choose(3) - 1
	case 2:
		return st.Choose(12000)
	case 3:
		return st.Choose(40000)
	default:
		if thorough {
			return st.Choose(262144)
		}
		return st.Choose(90000)
	}
}

// allocCfg draws the allocator configuration (ledger by default, sometimes real; the fence
// mode is used by C09/C14 thorough or when forced).
func allocCfg(st *sim.Stream, fenceOK bool) sim.AllocCfg {
	a := sim.AllocCfg{Ceiling: 512 << 20}
	switch st.Pick(6, 2, 1) {
	case 0:
		a.Mode = mcache.ModeLedger
	case 1:
		a.Mode = mcache.ModeReal
	case 2:
		if fenceOK {
			a.Mode = mcache.ModeFence
		} else {
			a.Mode = mcache.ModeLedger
		}
	}
	a.Reuse = st.Pick(3, 1, 1)
	return a
}

type readerScenario struct {
	m    *readerModel
	src  *sim.Source
	co   *coTenant
	buf  []byte // caller memory of a bytes reader
	snap []byte
}

// newReaderScenario builds a reader (kind chosen on the tape) over a fresh keyed stream.
func newReaderScenario(c *sim.Ctx, retain bool) *readerScenario {
	cfg := c.Cfg
	thorough := c.Tier == "thorough"
	n := streamLen(cfg, thorough)
	key := uint64(c.Seed)*1000003 + uint64(c.Index)*7919 + 17
	sc := &readerScenario{}
	m := &readerModel{c: c, retain: retain, maxKept: 24}
	sc.m = m
	if cfg.Chance(1, 4) {
		// bytes-backed reader over caller memory: len<cap, sub-slice, power-of-two or odd capacity
		m.kind = "BytesReader"
		capExtra := []int{0, 0, 1, 7, 64, 4096}[cfg.Choose(6)]
		capTotal := n + capExtra
		if cfg.Chance(1, 3) {
			// power-of-two capacity: the shared pool would accept this buffer
			p := 1
			for p < capTotal || p < 1 {
				p <<= 1
			}
			capTotal = p
		}
		lead := []int{0, 0, 3, 64}[cfg.Choose(4)]
		backing := make([]byte, lead+capTotal)
		sim.FillKeyed(backing, key^0xABCDEF, 0) // everything outside [lead,lead+n) is foreign
		buf := backing[lead : lead+n : lead+capTotal]
		sim.FillKeyed(buf, key, 0)
		m.data = append([]byte(nil), buf...)
		m.avail = n
		m.termErr = nil // set below
		sc.buf = backing
		sc.snap = append([]byte(nil), backing...)
		mcache.SimRegisterCaller(backing)
		c.Tracef("cfg  BytesReader over caller slice len=%d cap=%d (backing array %d, lead %d)", n, capTotal-0, len(backing), lead)
		m.termErr = ioEOF
		c.Guard("NewBytesReader", func() { m.r = bufiox.NewBytesReader(buf) })
		c.Count("cfg.reader.bytes")
	} else {
		m.kind = "DefaultReader"
		m.data = sim.KeyedBytes(key, 0, n)
		scfg := sim.RandomSourceCfg(cfg, n)
		// terminal error inside the stream (the peer closes mid-way)
		switch cfg.Pick(5, 2, 2) {
		case 1:
			scfg.ErrAt = cfg.Choose(n + 1)
			c.Count("fault.cfg.error_inside_stream")
		case 2:
			// exactly on a buffer boundary
			if n >= 4096 {
				scfg.ErrAt = 4096 * (1 + cfg.Choose(n/4096))
				c.Count("fault.cfg.error_at_buffer_multiple")
			}
		}
		if scfg.ErrAt > 0 && scfg.ErrAt%4096 == 0 {
			c.Count("probe.error_at_4096_multiple")
		}
		m.avail = scfg.ErrAt
		if cfg.Chance(1, 12) {
			// stall profile: from some offset on the source returns (0,nil) forever
			scfg.StallAt = cfg.Choose(scfg.ErrAt + 1)
			if scfg.StallAt < scfg.ErrAt {
				m.avail = scfg.StallAt
				m.stall = true
			} else {
				scfg.StallAt = -1
			}
			c.Count("fault.cfg.stall")
		}
		if scfg.ZeroDen > 0 {
			c.Count("fault.cfg.zero_reads")
		}
		m.termErr = scfg.Err
		sc.src = sim.NewSource(c, "r", m.data, scfg)
		m.src = sc.src
		c.Tracef("cfg  DefaultReader over Source: stream %d bytes, %s", n, scfg.String())
		c.Guard("NewDefaultReader", func() { m.r = bufiox.NewDefaultReader(sc.src) })
		c.Count("cfg.reader.source")
	}
	return sc
}

func (sc *readerScenario) checkCaller(when string) {
	if sc.buf == nil {
		return
	}
	if d := firstDiff(sc.buf, sc.snap); d >= 0 {
		sc.m.c.Fail("CALLER_MODIFIED", "BytesReader", sim.F{}, "the caller's backing array (len %d) was modified at offset %d %s: now %#x, was %#x", len(sc.buf), d, when, sc.buf[d], sc.snap[d])
	}
}

// step performs one tape-chosen operation.
func (sc *readerScenario) step(st *sim.Stream, weights []int) {
	m := sc.m
	remaining := m.avail - m.pos
	buffered := 4096
	if sc.src != nil {
		buffered = sc.src.Pos - m.pos
	}
	if m.sourceErrSeen && !m.stall && st.Chance(1, 6) {
		// absurd counts are only safe to issue once the reader has reported its source's error
		// (a healthy reader would try to grow its buffer to that size)
		huge := []int{math.MaxInt, math.MaxInt - 1, math.MaxInt - m.pos + m.relBase, 1 << 62, math.MaxInt32 + 1}[st.Choose(5)]
		m.c.Count("probe.huge_count_after_failure")
		switch st.Choose(3) {
		case 0:
			m.Next(huge)
		case 1:
			m.Peek(huge)
		case 2:
			m.Skip(huge)
		}
		return
	}
	switch st.Pick(weights...) {
	case 0:
		m.Next(pickSize(st, remaining, buffered))
	case 1:
		m.Peek(pickSize(st, remaining, buffered))
	case 2:
		m.Skip(pickSize(st, remaining, buffered))
	case 3:
		l := pickSize(st, remaining, buffered)
		if l > remaining {
			m.c.Count("probe.readbinary_larger_than_left")
		}
		m.ReadBinary(l, 0x5A)
	case 4:
		if st.Chance(1, 4) {
			m.ReleaseWith(sim.ErrCustom)
		} else {
			m.Release()
		}
	case 5:
		switch st.Choose(3) {
		case 0:
			m.Next(-1 - st.Choose(3))
		case 1:
			m.Peek(-1 - st.Choose(3))
		case 2:
			m.Skip(-1 - st.Choose(3))
		}
	}
}

func opWeights(cfg *sim.Stream) []int {
	// swarm: each op kind is enabled with its own weight; at least Next stays on
	w := []int{3 + cfg.Choose(4), cfg.Choose(4), cfg.Choose(4), cfg.Choose(5), cfg.Choose(4), cfg.Choose(2)}
	return w
}

func runC04(c *sim.Ctx) {
	cfg := c.Cfg
	a := allocCfg(cfg, false)
	c.SetupAlloc(a)
	sc := newReaderScenario(c, false)
	m := sc.m
	co := newCoTenant(c, cfg.Chance(1, 2))
	weights := opWeights(cfg)
	maxOps := 60
	if c.Tier == "thorough" {
		maxOps = 300
	}
	nops := 1 + cfg.Choose(maxOps)
	st := c.Tape.S("ops")
	if sc.src != nil && cfg.Chance(1, 10) {
		// lockstep profile: a long-lived reader, hundreds of tiny requests, the peer delivers
		// exactly what is asked for (with zero-byte reads in between): per-call state must
		// not accumulate over the reader's lifetime
		sc.src.Cfg.Mode = sim.ChunkExact
		sc.src.Cfg.ZeroDen, sc.src.Cfg.ZeroMax = 2, 3
		c.Count("cfg.lockstep_profile")
		n := 200 + cfg.Choose(600)
		for i := 0; i < n && m.pos < m.avail; i++ {
			sz := 1 + st.Choose(8)
			switch st.Pick(6, 1, 1, 1) {
			case 0:
				m.Next(sz)
			case 1:
				m.Skip(sz)
			case 2:
				m.ReadBinary(sz, 0x33)
			case 3:
				m.Release()
			}
		}
	}
	for i := 0; i < nops; i++ {
		sc.step(st, weights)
		co.step()
		if m.kind == "BytesReader" && mcache.SimGetStats().Mallocs > 0 {
			c.Count("probe.bytes_reader_growth")
		}
	}
	m.drain(st)
	sc.checkCaller("at the end of the run")
	m.Release()
	co.finish()
	mcache.SimCheckPoison()
}
