package props

import (
	"github.com/bytedance/gopkg/lang/mcache"

	"verif/harness/sim"
)

func init() {
	sim.Register(&sim.Prop{
		ID: "C09", Run: runC09, QuickRuns: 80000, ThoroughRuns: 500000,
		Rule:       "Each run is one of: (a) a bufiox reader history in which every slice returned by Next/Peek is retained and re-verified after every later operation, co-tenant step and pool flush until the next Release; (b) a bufiox writer history with late, partial and repeated fills of open regions up to the Flush; (c) skip-decoder results retained until their horizon. Caller memory (bytes-reader slice, WriteBinary payloads, bytes-writer initial slice) is registered with the allocator shim and compared with a snapshot after every operation. Allocator: ledger+poison, fence (guard pages, PROT_NONE on free) or the real mcache, always with the adversarial co-tenant.",
		Components: realComponents,
		Probes: []string{"slice_retained_across_growth", "slice_retained_across_3_growths", "release_with_unread_tail", "region_filled_after_growth",
			"cotenant_got_buffer_freed_by_instance", "bytes_reader_growth", "bytes_writer_grown_out_of_initial", "rsd_grow_with_prefix", "bytes_writer_reused_after_flush"},
	})
}

func allocCfgC09(c *sim.Ctx) sim.AllocCfg {
	cfg := c.Cfg
	a := sim.AllocCfg{Ceiling: 512 << 20}
	fenceW := 1
	if c.Tier == "thorough" {
		fenceW = 3
	}
	switch cfg.Pick(6, 2, fenceW) {
	case 0:
		a.Mode = mcache.ModeLedger
	case 1:
		a.Mode = mcache.ModeReal
	case 2:
		a.Mode = mcache.ModeFence
	}
	a.Reuse = cfg.Pick(3, 1, 1)
	return a
}

func runC09(c *sim.Ctx) {
	cfg := c.Cfg
	c.SetupAlloc(allocCfgC09(c))
	maxOps := 80
	if c.Tier == "thorough" {
		maxOps = 300
	}
	st := c.Tape.S("ops")
	switch cfg.Pick(5, 4, 3) {
	case 0:
		c.Count("cfg.scenario.reader_retention")
		sc := newReaderScenario(c, true)
		m := sc.m
		co := newCoTenant(c, true)
		// retention-heavy mix: many Next/Peek, few Release
		weights := []int{4 + cfg.Choose(4), 1 + cfg.Choose(4), cfg.Choose(2), cfg.Choose(3), cfg.Choose(3), 0}
		nops := 1 + cfg.Choose(maxOps)
		for i := 0; i < nops; i++ {
			sc.step(st, weights)
			m.verifyKeptQuick("after a later operation")
			sc.checkCaller("after an operation")
			co.step()
			m.verifyKeptQuick("after a co-tenant step")
		}
		m.verifyKept("at the end of the run (before Release)")
		sc.checkCaller("at the end of the run")
		if m.kind == "BytesReader" && mcache.SimGetStats().Mallocs > 0 {
			c.Count("probe.bytes_reader_growth")
		}
		m.Release()
		sc.checkCaller("after the final Release")
		co.finish()
	case 1:
		c.Count("cfg.scenario.writer_regions")
		sc := newWriterScenario(c)
		m := sc.m
		m.multiFlushBytes = true
		co := newCoTenant(c, true)
		// lazy-fill-heavy mix
		weights := []int{3 + cfg.Choose(4), 1 + cfg.Choose(3), 2 + cfg.Choose(4), cfg.Choose(3), 0}
		nops := 1 + cfg.Choose(maxOps)
		for i := 0; i < nops; i++ {
			sc.step(st, weights)
			m.checkPayloads("after an operation")
			co.step()
			m.checkPayloads("after a co-tenant step")
			if m.failed {
				break
			}
		}
		if !m.failed {
			for _, it := range m.items {
				if it.reg != nil && it.reg.filled != nil {
					m.fill(it.reg, 0, len(it.reg.b))
				}
			}
			m.Flush()
		}
		if m.target != nil && len(m.initial) > 0 && len(m.expected)+len(m.initial) > cap(m.backing) {
			c.Count("probe.bytes_writer_grown_out_of_initial")
		}
		m.checkPayloads("at the end of the run")
		co.finish()
	case 2:
		runC09Skip(c, st, maxOps)
	}
	mcache.SimCheckPoison()
}

// runC09Skip is replaced once the Thrift reference codec exists (skip-decoder retention).
var runC09Skip = func(c *sim.Ctx, st *sim.Stream, maxOps int) {
	c.Count("cfg.scenario.skipdecoder_retention_unavailable")
}
