package props

import (
	"bytes"
	"errors"

	"github.com/bytedance/gopkg/lang/dirtmake"
	"github.com/bytedance/gopkg/lang/mcache"
	"github.com/cloudwego/gopkg/bufiox"

	"verif/harness/sim"
)

// region is a Malloc'd slice the caller may fill at any time before Flush.
type region struct {
	id     int
	b      []byte // as returned by Malloc
	want   []byte // what the caller has stored so far (model's copy)
	filled []bool // nil when fully filled
	nfill  int
	grow   int // growths since it was handed out
	op     int64
}

type witem struct {
	reg     *region // nil => payload
	payload []byte
}

// writerModel is the region-list reference model of a bufiox.Writer with the oracle for
// every operation (DESIGN.md section 4, C05) and the caller-memory checks of C09.
type writerModel struct {
	c    *sim.Ctx
	w    bufiox.Writer
	kind string // "DefaultWriter" | "BytesWriter"
	sink *sim.Sink

	items          []witem // current epoch, in order
	unflushed      int
	expected       []byte // everything that must have reached the sink so far (all epochs)
	epoch          int
	nextReg        int
	key            uint64
	opIndex        int64
	lastMall       int64
	growthsInEpoch int

	sinkErr  error
	failed   bool // a sink error has been returned by Flush
	failedAt int  // expected-stream offset at which the failing flush began

	// bytes-backed writer
	target   *[]byte
	initial  []byte // initial contents (len)
	backing  []byte // whole caller array
	snapInit []byte

	payloads [][2][]byte // caller payload memory and snapshot

	// multiFlushBytes: keep using a bytes-backed writer after its Flush (C09). What later
	// flushes publish is not defined by any property; but a slice the writer has published
	// belongs to the caller from then on and must never be written again.
	multiFlushBytes bool
	published       [][2][]byte
}

func (m *writerModel) site(op string) string { return op + "/" + m.kind }

func (m *writerModel) begin(op string) {
	m.opIndex++
	m.c.Ops++
	m.lastMall = mcache.SimGetStats().Mallocs + dirtmake.SimAllocs
}

func (m *writerModel) end(code uint32, n int, ok bool) {
	grew := mcache.SimGetStats().Mallocs+dirtmake.SimAllocs != m.lastMall
	if grew {
		m.growthsInEpoch++
		m.c.NonTriv = true
		m.c.Count("probe.writer_alloc_or_growth")
		for _, it := range m.items {
			if it.reg != nil {
				it.reg.grow++
			}
		}
	}
	ac := code<<16 | sizeBucket(n)<<8
	if ok {
		ac |= 1
	}
	if grew {
		ac |= 2
	}
	if m.failed {
		ac |= 4
	}
	m.c.Abs(ac)
	m.c.Ev(uint64(ac), uint64(m.unflushed))
}

func (m *writerModel) checkWrittenLen(op string) {
	if m.failed {
		return // nothing is demanded of a failed writer beyond the sticky error
	}
	want := m.unflushed
	if got := m.w.WrittenLen(); got != want {
		m.c.Fail("WRITTENLEN", m.site(op), sim.F{"delta": got - want}, "after %s WrittenLen()=%d, model says %d unflushed bytes", op, got, want)
	}
}

func (m *writerModel) sticky(op string, err error) bool {
	if !m.failed {
		return false
	}
	if err == nil {
		m.c.Fail("ERR_NOT_STICKY", m.site(op), sim.F{}, "%s succeeded after Flush had returned the sink error %v", op, m.sinkErr)
	}
	if !(err == m.sinkErr || errors.Is(err, m.sinkErr)) {
		m.c.Fail("ERR_NOT_STICKY", m.site(op), sim.F{"other_error": true}, "%s returned %v after Flush had returned the sink error %v", op, err, m.sinkErr)
	}
	m.c.Count("probe.sticky_error_checked")
	return true
}

func (m *writerModel) Malloc(n int, fillNow int) {
	c := m.c
	m.begin("Malloc")
	c.Tracef("op%d Malloc(%d)   [unflushed %d]", m.opIndex, n, m.unflushed)
	var b []byte
	var err error
	c.GuardNoOOM(m.site("Malloc"), func() { b, err = m.w.Malloc(n) })
	c.Tracef("  => len %d, err %v", len(b), err)
	if m.sticky("Malloc", err) {
		m.end(1, n, false)
		return
	}
	if n < 0 {
		if err == nil {
			c.Fail("NEGATIVE_ACCEPTED", m.site("Malloc"), sim.F{}, "Malloc(%d) succeeded", n)
		}
		m.checkWrittenLen("Malloc")
		m.end(1, 0, false)
		return
	}
	if err != nil {
		c.Fail("UNEXPLAINED_ERROR", m.site("Malloc"), sim.F{}, "Malloc(%d) failed with %v on a healthy writer", n, err)
	}
	if len(b) != n {
		c.Fail("REGION_LEN", m.site("Malloc"), sim.F{}, "Malloc(%d) returned a slice of length %d", n, len(b))
	}
	r := &region{id: m.nextReg, b: b, want: make([]byte, n), filled: make([]bool, n), op: m.opIndex}
	if n == 0 {
		r.filled = nil
	}
	m.nextReg++
	m.items = append(m.items, witem{reg: r})
	m.unflushed += n
	switch fillNow {
	case 0:
		m.fill(r, 0, n)
	case 1: // half now
		m.fill(r, 0, n/2)
	}
	m.checkWrittenLen("Malloc")
	m.end(1, n, true)
}

func (m *writerModel) fill(r *region, lo, hi int) {
	if hi > len(r.b) {
		hi = len(r.b)
	}
	if lo >= hi {
		return
	}
	r.nfill++
	k := m.key + uint64(r.id)*0x9E3779B97F4A7C15 + uint64(r.nfill)*977
	sim.FillKeyed(r.want[lo:hi], k, lo)
	m.c.Guard("fill-region/"+m.kind, func() { copy(r.b[lo:hi], r.want[lo:hi]) })
	if r.filled != nil {
		for i := lo; i < hi; i++ {
			r.filled[i] = true
		}
	}
	if r.grow > 0 {
		m.c.Count("probe.region_filled_after_growth")
	}
	if m.c.Verbose() {
		m.c.Tracef("  fill region #%d [%d:%d] (growths since Malloc: %d)", r.id, lo, hi, r.grow)
	}
	m.c.Ev(0x81, uint64(r.id), uint64(lo), uint64(hi))
}

// LateFill fills (or re-fills) a part of a still-open region.
func (m *writerModel) LateFill(st *sim.Stream) {
	var open []*region
	for _, it := range m.items {
		if it.reg != nil && len(it.reg.b) > 0 {
			open = append(open, it.reg)
		}
	}
	if len(open) == 0 || m.failed {
		return
	}
	r := open[st.Choose(len(open))]
	n := len(r.b)
	lo := st.Choose(n)
	hi := lo + 1 + st.Choose(n-lo)
	if st.Chance(1, 2) {
		lo, hi = 0, n
	}
	m.opIndex++
	m.c.Tracef("op%d late fill", m.opIndex)
	m.fill(r, lo, hi)
}

func (m *writerModel) WriteBinary(n int, ownPow2 bool) {
	c := m.c
	m.begin("WriteBinary")
	// payload is caller memory
	capn := n
	if ownPow2 {
		capn = 1
		for capn < n {
			capn <<= 1
		}
	}
	backing := make([]byte, capn)
	sim.FillKeyed(backing, m.key^uint64(m.opIndex)*131, 0)
	payload := backing[:n]
	mcache.SimRegisterCaller(backing)
	snap := append([]byte(nil), backing...)
	m.payloads = append(m.payloads, [2][]byte{backing, snap})
	c.Tracef("op%d WriteBinary(len %d, cap %d)   [unflushed %d]", m.opIndex, n, capn, m.unflushed)
	var got int
	var err error
	c.GuardNoOOM(m.site("WriteBinary"), func() { got, err = m.w.WriteBinary(payload) })
	c.Tracef("  => %d, err %v", got, err)
	if m.sticky("WriteBinary", err) {
		m.end(2, n, false)
		return
	}
	if err != nil {
		c.Fail("UNEXPLAINED_ERROR", m.site("WriteBinary"), sim.F{}, "WriteBinary(%d bytes) failed with %v on a healthy writer", n, err)
	}
	if got != n {
		c.Fail("WRITEBINARY_SHORT", m.site("WriteBinary"), sim.F{}, "WriteBinary(%d bytes) reported %d with nil error", n, got)
	}
	m.items = append(m.items, witem{payload: snap[:n]})
	m.unflushed += n
	if n > 4096 {
		c.Count("probe.writebinary_larger_than_buffer")
	}
	m.checkWrittenLen("WriteBinary")
	m.end(2, n, true)
}

func (m *writerModel) checkPayloads(when string) {
	for _, p := range m.payloads {
		if d := firstDiff(p[0], p[1]); d >= 0 {
			m.c.Fail("CALLER_MODIFIED", m.site("WriteBinary"), sim.F{}, "a payload passed to WriteBinary (caller memory, %d bytes) was modified at offset %d %s", len(p[0]), d, when)
		}
	}
	for _, p := range m.published {
		if d := firstDiff(p[0], p[1]); d >= 0 {
			m.c.Fail("CALLER_MODIFIED", m.site("Flush"), sim.F{"published_output": true}, "the slice published by an earlier Flush of the bytes-backed writer (%d bytes, now the caller's) was modified at offset %d %s", len(p[0]), d, when)
		}
	}
	if m.snapInit != nil {
		// the first len(initial) bytes of the caller's array are never modified
		if d := firstDiff(m.backing[:len(m.snapInit)], m.snapInit); d >= 0 {
			m.c.Fail("CALLER_MODIFIED", m.site("NewBytesWriter"), sim.F{}, "the initial contents of the caller's slice were modified at offset %d %s", d, when)
		}
	}
}

// epochExpected verifies every open region against the model and returns the bytes this
// epoch must deliver.
func (m *writerModel) epochExpected() []byte {
	var exp []byte
	for _, it := range m.items {
		if it.reg == nil {
			exp = append(exp, it.payload...)
			continue
		}
		r := it.reg
		var cur []byte
		m.c.Guard("read-region/"+m.kind, func() { cur = append([]byte(nil), r.b...) })
		for i := range cur {
			if r.filled == nil || r.filled[i] {
				if cur[i] != r.want[i] {
					m.c.Fail("REGION_CLOBBERED", m.site("Malloc"), sim.F{"growths_since_ge_1": r.grow >= 1},
						"region #%d (%d bytes, handed out by op%d, %d growths since) no longer holds what the caller stored: byte %d is %#x, caller wrote %#x (regions overlap or the region moved)",
						r.id, len(r.b), r.op, r.grow, i, cur[i], r.want[i])
				}
			}
		}
		exp = append(exp, cur...)
	}
	return exp
}

func (m *writerModel) Flush() {
	c := m.c
	m.begin("Flush")
	var exp []byte
	if !m.failed {
		exp = m.epochExpected()
	}
	pend := m.growthsInEpoch
	c.Tracef("op%d Flush()   [unflushed %d in %d items, growths in epoch %d]", m.opIndex, m.unflushed, len(m.items), pend)
	sinkBefore := 0
	writesBefore := 0
	if m.sink != nil {
		sinkBefore = len(m.sink.Got)
		writesBefore = m.sink.Writes
	}
	var err error
	c.GuardNoOOM(m.site("Flush"), func() { err = m.w.Flush() })
	c.Tracef("  => err %v", err)
	if m.sticky("Flush", err) {
		if m.sink != nil && len(m.sink.Got) != sinkBefore {
			c.Fail("WRITE_AFTER_ERROR", m.site("Flush"), sim.F{}, "a writer whose sink had failed wrote %d more bytes to the sink", len(m.sink.Got)-sinkBefore)
		}
		m.end(3, 0, false)
		return
	}
	if m.sink != nil && m.sink.Failed && m.sink.Writes > writesBefore && !m.failed {
		// the sink failed during this flush: the error must surface
		if err == nil {
			c.Fail("ERR_NOT_RETURNED", m.site("Flush"), sim.F{}, "the sink failed with %v but Flush returned nil", m.sink.Err)
		}
		if !(err == m.sink.Err || errors.Is(err, m.sink.Err)) {
			c.Fail("ERR_NOT_RETURNED", m.site("Flush"), sim.F{"other_error": true}, "the sink failed with %v but Flush returned %v", m.sink.Err, err)
		}
		m.failed = true
		m.sinkErr = m.sink.Err
		// the sink content must be a prefix of what was expected
		all := append(append([]byte(nil), m.expected...), exp...)
		if len(m.sink.Got) > len(all) || !bytes.Equal(m.sink.Got, all[:len(m.sink.Got)]) {
			c.Fail("SINK_NOT_PREFIX", m.site("Flush"), sim.F{}, "after the failed flush the sink holds %d bytes that are not a prefix of the %d expected", len(m.sink.Got), len(all))
		}
		switch {
		case m.epoch == 0:
			c.Count("probe.sink_error_at_first_flush")
		default:
			c.Count("probe.sink_error_at_later_flush")
		}
		m.end(3, 0, false)
		return
	}
	if err != nil {
		c.Fail("UNEXPLAINED_ERROR", m.site("Flush"), sim.F{}, "Flush failed with %v although the sink accepted everything", err)
	}
	m.expected = append(m.expected, exp...)
	if m.sink != nil {
		got := m.sink.Got[sinkBefore:]
		if d := firstDiff(got, exp); d >= 0 {
			hi := d + 8
			if hi > len(got) {
				hi = len(got)
			}
			var gs []byte
			if d < len(got) {
				gs = got[d:hi]
			}
			c.Fail("SINK_MISMATCH", m.site("Flush"), sim.F{"pending_ge_1": pend >= 1, "poison_seen": len(gs) >= 2 && mcache.SimIsPoison(gs), "len_delta": len(got) - len(exp)},
				"flush #%d delivered %d bytes to the sink, expected %d; first difference at offset %d (got % x); %d growths in this epoch", m.epoch, len(got), len(exp), d, gs, pend)
		}
	}
	switch {
	case pend == 0:
		c.Count("probe.flush_with_0_pending")
	case pend == 1:
		c.Count("probe.flush_with_1_pending")
	default:
		c.Count("probe.flush_with_2_or_more_pending")
	}
	m.items = m.items[:0]
	m.unflushed = 0
	m.growthsInEpoch = 0
	m.epoch++
	if m.target != nil {
		if m.epoch == 1 || (len(exp) == 0 && !m.multiFlushBytes) {
			m.checkTarget()
		}
		if m.multiFlushBytes && len(exp) > 0 {
			pub := *m.target
			m.published = append(m.published, [2][]byte{pub, append([]byte(nil), pub...)})
			m.c.Count("probe.bytes_writer_reused_after_flush")
		}
	}
	m.checkWrittenLen("Flush")
	m.end(3, len(exp), true)
}

func (m *writerModel) checkTarget() {
	want := append(append([]byte(nil), m.initial...), m.expected...)
	got := *m.target
	if d := firstDiff(got, want); d >= 0 {
		m.c.Fail("TARGET_MISMATCH", m.site("Flush"), sim.F{"len_delta": len(got) - len(want)}, "after Flush the target slice has %d bytes, expected %d (initial %d + written %d); first difference at %d", len(got), len(want), len(m.initial), len(m.expected), d)
	}
}
