// Package props holds the per-property scenarios (workload + oracle + fault space).
package props

import (
	"bytes"
	"errors"
	"fmt"
	"io"

	"github.com/bytedance/gopkg/lang/mcache"
	"github.com/cloudwego/gopkg/bufiox"

	"verif/harness/sim"
)

// retained is a zero-copy slice the model keeps until its validity horizon.
type retained struct {
	b    []byte // the slice as returned by the reader
	off  int    // stream offset of b[0]
	op   int64  // op index at which it was obtained
	grow int    // number of growths (allocations inside reader ops) seen since
}

// readerModel is the cursor-over-bytes reference model of a bufiox.Reader together with the
// oracle for every operation (DESIGN.md section 4, C04) and, optionally, retention of every
// zero-copy slice until the next Release (C09).
type readerModel struct {
	c    *sim.Ctx
	r    bufiox.Reader
	kind string // "DefaultReader" | "BytesReader"
	data []byte // the stream as sent by the peer
	// avail: number of bytes that can ever be delivered (terminal error offset, or the
	// stall offset if the source stalls earlier).
	avail   int
	stall   bool  // the source stalls (returns (0,nil) forever) at offset avail
	termErr error // the source's terminal error
	src     *sim.Source

	pos     int // bytes consumed so far
	relBase int // pos at the last Release

	retain        bool
	kept          []retained
	maxKept       int
	opIndex       int64
	growths       int
	lastMall      int64
	failed        bool // the reader has reported a failure (sticky state of the source)
	sourceErrSeen bool
}

func (m *readerModel) site(op string) string { return op + "/" + m.kind }

func sizeBucket(n int) uint32 {
	b := uint32(0)
	for n > 0 {
		b++
		n >>= 1
	}
	return b
}

func (m *readerModel) begin(op string, n int) {
	m.opIndex++
	m.c.Ops++
	if m.src != nil {
		m.src.BeginCall(n)
	}
	m.lastMall = mcache.SimGetStats().Mallocs
}

// end records the abstract event and growth accounting of an op.
func (m *readerModel) end(opCode uint32, n int, ok bool) {
	grew := mcache.SimGetStats().Mallocs != m.lastMall
	if grew {
		m.growths++
		m.c.NonTriv = true
		m.c.Count("probe.reader_alloc_or_growth")
		for i := range m.kept {
			m.kept[i].grow++
		}
	}
	code := opCode<<16 | sizeBucket(n)<<8
	if ok {
		code |= 1
	}
	if grew {
		code |= 2
	}
	if m.src != nil && m.src.Issued {
		code |= 4
	}
	m.c.Abs(code)
	m.c.Ev(uint64(code), uint64(m.pos))
	if m.src != nil && m.src.CallReads >= 100 && ok {
		m.c.Count("probe.request_satisfied_after_100_or_more_reads")
	}
}

// explainFailure checks that a failure of an n-byte request is justified and carries the
// right error. want<0: negative count.
func (m *readerModel) explainFailure(op string, n int, err error) {
	c := m.c
	if err == nil {
		return
	}
	m.failed = true
	if n < 0 {
		return // any non-nil error is fine for a negative count
	}
	remaining := m.avail - m.pos
	if n <= remaining {
		c.Fail("UNEXPLAINED_ERROR", m.site(op), sim.F{"stall": m.stall, "err": errKind(err)},
			"%s(%d) failed with %v although %d more bytes are deliverable (consumed %d of %d) and the source makes progress", op, n, err, remaining, m.pos, m.avail)
	}
	if m.stall {
		// the source never delivers the missing bytes and never reports an error: any non-nil
		// error is acceptable (conventionally io.ErrNoProgress)
		c.Count("probe.failure_under_stall")
		return
	}
	if !(err == m.termErr || errors.Is(err, m.termErr)) {
		c.Fail("WRONG_ERROR", m.site(op), sim.F{"want": errKind(m.termErr), "got": errKind(err)},
			"%s(%d) ran out of data but reported %v instead of the source's error %v", op, n, err, m.termErr)
	}
	m.sourceErrSeen = true // the reader has surfaced its source's error: it is in its sticky error state
	if m.src != nil && !m.src.Issued {
		c.Fail("FABRICATED_ERROR", m.site(op), sim.F{"err": errKind(err)},
			"%s(%d) reported %v although the source has not issued its error yet (source handed out %d of %d bytes)", op, n, err, m.src.Pos, m.avail)
	}
}

func errKind(err error) string {
	switch {
	case err == nil:
		return "nil"
	case err == io.EOF:
		return "io.EOF"
	case err == io.ErrUnexpectedEOF:
		return "io.ErrUnexpectedEOF"
	case err == io.ErrNoProgress:
		return "io.ErrNoProgress"
	case err == sim.ErrCustom:
		return "custom"
	case err == sim.ErrWrapped:
		return "wrapped"
	case err == sim.ErrWrappedEOF:
		return "wrapped-EOF"
	case err == sim.ErrTimeout:
		return "timeout"
	}
	if _, ok := err.(*sim.PtrError); ok {
		return "pointer-typed"
	}
	if err == errWrapsProto {
		return "wraps-protocol-exception"
	}
	if _, ok := err.(*sim.PtrEOFError); ok {
		return "pointer-typed-wrapping-EOF"
	}
	return fmt.Sprintf("%T", err)
}

func firstDiff(a, b []byte) int {
	n := len(a)
	if len(b) < n {
		n = len(b)
	}
	for i := 0; i < n; i++ {
		if a[i] != b[i] {
			return i
		}
	}
	if len(a) != len(b) {
		return n
	}
	return -1
}

func (m *readerModel) checkBytes(op string, got []byte, off int) {
	want := m.data[off : off+len(got)]
	if d := firstDiff(got, want); d >= 0 {
		lo := d
		hi := d + 8
		if hi > len(got) {
			hi = len(got)
		}
		m.c.Fail("WRONG_BYTES", m.site(op), sim.F{"poison_seen": mcache.SimIsPoison(got[lo:hi])},
			"%s returned wrong bytes: first difference at byte %d of %d (stream offset %d): got % x want % x", op, d, len(got), off+d, got[lo:hi], want[lo:hi])
	}
}

func (m *readerModel) checkReadLen(op string) {
	if got, want := m.r.ReadLen(), m.pos-m.relBase; got != want {
		m.c.Fail("READLEN", m.site(op), sim.F{"delta": got - want}, "after %s ReadLen()=%d, model says %d bytes consumed since the last Release", op, got, want)
	}
}

func (m *readerModel) nextOrPeek(op string, n int, advance bool) {
	c := m.c
	var buf []byte
	var err error
	m.begin(op, n)
	c.Tracef("op%d %s(%d)   [consumed %d, deliverable %d]", m.opIndex, op, n, m.pos, m.avail)
	before := m.r.ReadLen()
	c.GuardNoOOM(m.site(op), func() {
		if advance {
			buf, err = m.r.Next(n)
		} else {
			buf, err = m.r.Peek(n)
		}
	})
	c.Tracef("  => len %d, err %v", len(buf), err)
	if err != nil {
		if len(buf) != 0 {
			c.Fail("BYTES_WITH_ERROR", m.site(op), sim.F{}, "%s(%d) returned %d bytes together with error %v", op, n, len(buf), err)
		}
		if after := m.r.ReadLen(); after != before {
			c.Fail("CONSUMED_ON_FAILURE", m.site(op), sim.F{"delta": after - before}, "%s(%d) failed (%v) but ReadLen moved from %d to %d", op, n, err, before, after)
		}
		m.explainFailure(op, n, err)
		m.end(opCodeOf(op), n, false)
		return
	}
	if n < 0 {
		c.Fail("NEGATIVE_ACCEPTED", m.site(op), sim.F{}, "%s(%d) succeeded", op, n)
	}
	if len(buf) != n {
		if len(buf) == 0 {
			reads, progress := 0, false
			if m.src != nil {
				reads, progress = m.src.CallReads, m.src.CallBytes > 0
			}
			c.Fail("NIL_NIL", m.site(op), sim.F{"reads_in_call_ge_100": reads >= 100, "source_progress": progress, "stall": m.stall && m.pos+n > m.avail},
				"%s(%d) returned no bytes and a nil error (source reads in this call: %d, bytes delivered in this call: %v, %d more bytes deliverable)", op, n, reads, progress, m.avail-m.pos)
		}
		c.Fail("WRONG_LEN", m.site(op), sim.F{}, "%s(%d) returned %d bytes with nil error", op, n, len(buf))
	}
	if n > m.avail-m.pos {
		c.Fail("WRONG_BYTES", m.site(op), sim.F{"beyond_end": true}, "%s(%d) succeeded although only %d bytes are deliverable", op, n, m.avail-m.pos)
	}
	m.checkBytes(op, buf, m.pos)
	if m.retain && n > 0 {
		m.keep(buf, m.pos)
	}
	if advance {
		m.pos += n
	} else if after := m.r.ReadLen(); after != before {
		c.Fail("PEEK_ADVANCED", m.site(op), sim.F{"delta": after - before}, "Peek(%d) moved ReadLen from %d to %d", n, before, after)
	}
	m.checkReadLen(op)
	m.end(opCodeOf(op), n, true)
}

func opCodeOf(op string) uint32 {
	switch op {
	case "Next":
		return 1
	case "Peek":
		return 2
	case "Skip":
		return 3
	case "ReadBinary":
		return 4
	case "Release":
		return 5
	}
	return 9
}

func (m *readerModel) Next(n int) { m.nextOrPeek("Next", n, true) }
func (m *readerModel) Peek(n int) { m.nextOrPeek("Peek", n, false) }

func (m *readerModel) Skip(n int) {
	c := m.c
	var err error
	m.begin("Skip", n)
	c.Tracef("op%d Skip(%d)   [consumed %d, deliverable %d]", m.opIndex, n, m.pos, m.avail)
	before := m.r.ReadLen()
	c.GuardNoOOM(m.site("Skip"), func() { err = m.r.Skip(n) })
	c.Tracef("  => err %v", err)
	if err != nil {
		if after := m.r.ReadLen(); after != before {
			c.Fail("CONSUMED_ON_FAILURE", m.site("Skip"), sim.F{"delta": after - before}, "Skip(%d) failed (%v) but ReadLen moved from %d to %d", n, err, before, after)
		}
		m.explainFailure("Skip", n, err)
		m.end(3, n, false)
		return
	}
	if n < 0 {
		c.Fail("NEGATIVE_ACCEPTED", m.site("Skip"), sim.F{}, "Skip(%d) succeeded", n)
	}
	if n > m.avail-m.pos {
		reads := 0
		if m.src != nil {
			reads = m.src.CallReads
		}
		c.Fail("SKIP_BEYOND_END", m.site("Skip"), sim.F{"reads_in_call_ge_100": reads >= 100, "stall": m.stall}, "Skip(%d) succeeded although only %d bytes are deliverable", n, m.avail-m.pos)
	}
	m.pos += n
	m.checkReadLen("Skip")
	m.end(3, n, true)
}

func (m *readerModel) ReadBinary(l int, junk byte) {
	c := m.c
	if l < 0 {
		l = 0
	}
	bs := make([]byte, l)
	for i := range bs {
		bs[i] = junk
	}
	var got int
	var err error
	m.begin("ReadBinary", l)
	c.Tracef("op%d ReadBinary(len %d)   [consumed %d, deliverable %d]", m.opIndex, l, m.pos, m.avail)
	before := m.r.ReadLen()
	c.GuardNoOOM(m.site("ReadBinary"), func() { got, err = m.r.ReadBinary(bs) })
	c.Tracef("  => %d, err %v", got, err)
	after := m.r.ReadLen()
	site := m.site("ReadBinary")
	if got < 0 || got > l {
		withErr := m.src != nil && m.src.WithErrCnt > 0
		c.Fail("OVER_REPORT", site, sim.F{"data_with_error": withErr}, "ReadBinary(len %d) reported %d bytes (err %v); ReadLen moved by %d", l, got, err, after-before)
	}
	if after-before != got {
		c.Fail("CONSUMED_NE_REPORTED", site, sim.F{"delta": after - before - got}, "ReadBinary(len %d) reported %d bytes but ReadLen moved by %d", l, got, after-before)
	}
	if got > m.avail-m.pos {
		c.Fail("WRONG_BYTES", site, sim.F{"beyond_end": true}, "ReadBinary reported %d bytes although only %d are deliverable", got, m.avail-m.pos)
	}
	m.checkBytes("ReadBinary", bs[:got], m.pos)
	m.pos += got
	if got < l {
		if err == nil {
			reads, progress := 0, false
			if m.src != nil {
				reads, progress = m.src.CallReads, m.src.CallBytes > 0
			}
			c.Fail("SHORT_NO_ERROR", site, sim.F{"reads_in_call_ge_100": reads >= 100, "source_progress": progress, "stall": m.stall && m.pos+(l-got) > m.avail},
				"ReadBinary(len %d) reported %d bytes with a nil error (source reads in this call: %d)", l, got, reads)
		}
		// the failure of the remaining l-got bytes must be explained
		m.explainFailure("ReadBinary", l-got, err)
		c.Count("probe.readbinary_short_with_error")
	}
	m.checkReadLen("ReadBinary")
	m.end(4, l, got == l)
}

func (m *readerModel) Release() { m.ReleaseWith(nil) }

// ReleaseWith calls Release(e): the argument must not change what the reader delivers.
func (m *readerModel) ReleaseWith(e error) {
	c := m.c
	m.begin("Release", 0)
	buffered := -1
	if m.src != nil {
		buffered = m.src.Pos - m.pos
	}
	c.Tracef("op%d Release()   [consumed %d, buffered-unread %d, retained slices %d]", m.opIndex, m.pos, buffered, len(m.kept))
	// retained slices are valid up to here
	m.verifyKept("before Release")
	m.kept = m.kept[:0]
	var err error
	if e != nil {
		c.Count("probe.release_with_error_argument")
		c.Tracef("  (Release called with a non-nil error argument)")
	}
	c.GuardNoOOM(m.site("Release"), func() { err = m.r.Release(e) })
	if err != nil {
		c.Fail("RELEASE_ERROR", m.site("Release"), sim.F{}, "Release returned %v", err)
	}
	if buffered > 0 {
		c.Count("probe.release_with_unread_tail")
	} else if buffered == 0 {
		c.Count("probe.release_with_nothing_buffered")
	}
	m.relBase = m.pos
	m.checkReadLen("Release")
	fr := mcache.SimGetStats().Frees
	_ = fr
	m.end(5, 0, true)
}

// keep remembers a zero-copy slice until the next Release.
func (m *readerModel) keep(b []byte, off int) {
	if len(m.kept) >= m.maxKept {
		return
	}
	m.kept = append(m.kept, retained{b: b, off: off, op: m.opIndex})
}

// verifyKept re-reads every retained slice and compares it with the stream.
func (m *readerModel) verifyKept(when string) {
	for i := range m.kept {
		k := &m.kept[i]
		want := m.data[k.off : k.off+len(k.b)]
		var d int
		m.c.Guard("verify-retained/"+m.kind, func() { d = firstDiff(k.b, want) })
		if d >= 0 {
			hi := d + 8
			if hi > len(k.b) {
				hi = len(k.b)
			}
			m.c.Fail("RETAINED_CHANGED", "Next|Peek/"+m.kind, sim.F{"poison_seen": mcache.SimIsPoison(k.b[d:hi]), "growths_since_ge_1": k.grow >= 1},
				"a %d-byte slice returned by op%d (stream offset %d) changed %s at byte %d: now % x, was % x (ops since: %d, growths since: %d)",
				len(k.b), k.op, k.off, when, d, k.b[d:hi], want[d:hi], m.opIndex-k.op, k.grow)
		}
		if k.grow >= 1 {
			m.c.Count("probe.slice_retained_across_growth")
		}
		if k.grow >= 3 {
			m.c.Count("probe.slice_retained_across_3_growths")
		}
	}
}

// verifyKeptQuick re-checks retained slices after every operation: small slices fully,
// large ones at both ends (the full comparison happens at the horizon).
func (m *readerModel) verifyKeptQuick(when string) {
	if !m.retain || len(m.kept) == 0 {
		return
	}
	total := 0
	for i := range m.kept {
		total += len(m.kept[i].b)
	}
	if total <= 64<<10 {
		m.verifyKept(when)
		return
	}
	for i := range m.kept {
		k := &m.kept[i]
		n := len(k.b)
		if n <= 512 {
			continue
		}
		var bad int = -1
		m.c.Guard("verify-retained/"+m.kind, func() {
			for _, j := range []int{0, 1, n / 2, n - 2, n - 1} {
				if k.b[j] != m.data[k.off+j] {
					bad = j
				}
			}
		})
		if bad >= 0 {
			m.verifyKept(when)
		}
	}
}

// drain reads the rest of the stream with ReadBinary and checks that everything deliverable
// arrives exactly once and in order.
func (m *readerModel) drain(st *sim.Stream) {
	c := m.c
	for i := 0; ; i++ {
		l := []int{4096, 1, 7, 100, 1000, 5000, 70000}[st.Choose(7)]
		before := m.pos
		m.ReadBinary(l, 0xAA)
		if m.pos == before {
			break
		}
		if i > 200000 {
			c.Fail("NO_PROGRESS", m.site("drain"), sim.F{}, "drain did not finish")
		}
	}
	if m.pos != m.avail {
		c.Fail("LOSS_AT_DRAIN", m.site("drain"), sim.F{"missing": m.avail - m.pos}, "after draining, %d of %d deliverable bytes were delivered", m.pos, m.avail)
	}
}

var _ = bytes.Equal
