package props

import (
	"github.com/bytedance/gopkg/lang/mcache"
	"github.com/cloudwego/gopkg/bufiox"

	"verif/harness/sim"
)

func init() {
	sim.Register(&sim.Prop{
		ID: "C05", Run: runC05, QuickRuns: 80000, ThoroughRuns: 150000,
		Rule:       "Each run: one bufiox writer (io.Writer-backed over a simulated Sink, or bytes-backed over a nil/empty/partly filled/full caller slice) driven through 1..300 operations from {Malloc(n), WriteBinary, late/partial/re-fill of any open region, Flush, negative counts}; every region has its own keyed pattern; the Sink fails at a tape-chosen k-th write accepting a strict prefix; allocator mode and co-tenant per run. Oracle: region-list model (exactly-once, in order, WrittenLen, sticky error, target slice).",
		Components: realComponents,
		Probes: []string{"writer_alloc_or_growth", "flush_with_0_pending", "flush_with_1_pending", "flush_with_2_or_more_pending", "region_filled_after_growth",
			"writebinary_larger_than_buffer", "sink_error_at_first_flush", "sink_error_at_later_flush", "sticky_error_checked", "bytes_writer_grown_out_of_initial", "every_kth_sink_write_enumerated", "sink_error_with_full_count"},
	})
}

type writerScenario struct {
	m    *writerModel
	sink *sim.Sink
}

func mallocSize(st *sim.Stream, written int) int {
	if bigValuesProfile && st.Chance(1, 3) {
		return 33000 + st.Choose(30000) // lands in the 64 KiB buffer class
	}
	switch st.Pick(6, 4, 3, 3, 3, 2, 1) {
	case 0:
		return []int{1, 0, 2, 3, 4, 8, 14, 6}[st.Choose(8)]
	case 1:
		return 1 + st.Choose(64)
	case 2:
		return 1 + st.Choose(1500)
	case 3:
		return []int{4096, 4095, 4097, 8192, 8191, 8193, 2048, 16384}[st.Choose(8)]
	case 4:
		// relative to the next power-of-two boundary of what has been written
		b := 4096
		for b <= written {
			b <<= 1
		}
		if b > 1<<17 {
			return 1 + st.Choose(100)
		}
		v := b - written + st.Choose(3) - 1
		if v < 0 {
			v = 0
		}
		return v
	case 5:
		return 1 + st.Choose(20000)
	default:
		return []int{70000, 33000, 12000, 131073, 262144, 262145, 300000, 524289, 1<<20 + 1}[st.Pick(4, 4, 4, 3, 1, 1, 1, 1, 1)]
	}
}

func newWriterScenario(c *sim.Ctx) *writerScenario {
	cfg := c.Cfg
	sc := &writerScenario{}
	m := &writerModel{c: c, key: uint64(c.Seed)*7777777 + uint64(c.Index)*104729 + 5}
	sc.m = m
	if cfg.Chance(1, 4) {
		m.kind = "BytesWriter"
		var target []byte
		switch cfg.Choose(5) {
		case 0: // nil
		case 1: // empty with capacity
			target = make([]byte, 0, []int{1, 16, 100, 4096, 5000}[cfg.Choose(5)])
		case 2, 3: // partly filled
			l := 1 + cfg.Choose(300)
			cp := l + []int{1, 3, 64, 4096, 10000}[cfg.Choose(5)]
			if cfg.Chance(1, 3) {
				p := 1
				for p < cp {
					p <<= 1
				}
				cp = p
			}
			target = make([]byte, l, cp)
		case 4: // full
			l := 1 + cfg.Choose(5000)
			if cfg.Chance(1, 2) {
				l = []int{64, 4096, 8192}[cfg.Choose(3)]
			}
			target = make([]byte, l)
		}
		if cap(target) > 0 {
			full := target[:cap(target)]
			sim.FillKeyed(full, m.key^0x55AA, 0)
			m.backing = full
			m.snapInit = append([]byte(nil), target...)
			mcache.SimRegisterCaller(full)
		}
		m.initial = append([]byte(nil), target...)
		m.unflushed = len(target)
		tp := new([]byte)
		*tp = target
		m.target = tp
		c.Tracef("cfg  BytesWriter over caller slice len=%d cap=%d nil=%v", len(target), cap(target), target == nil)
		c.Guard("NewBytesWriter", func() { m.w = bufiox.NewBytesWriter(tp) })
		c.Count("cfg.writer.bytes")
	} else {
		m.kind = "DefaultWriter"
		sc.sink = sim.NewSink(c, "w")
		m.sink = sc.sink
		if cfg.Chance(1, 3) {
			sc.sink.FailAt = 1 + cfg.Choose(6)
			sc.sink.Err = sim.TermError(1 + cfg.Choose(sim.NumTermErrors-1))
			sc.sink.Recover = cfg.Chance(1, 2)
			c.Count("fault.cfg.sink_fails_at_kth_write")
		}
		c.Tracef("cfg  DefaultWriter over Sink failAt=%d err=%v recover=%v", sc.sink.FailAt, sc.sink.Err, sc.sink.Recover)
		c.Guard("NewDefaultWriter", func() { m.w = bufiox.NewDefaultWriter(sc.sink) })
		c.Count("cfg.writer.sink")
	}
	return sc
}

func (sc *writerScenario) step(st *sim.Stream, weights []int) {
	m := sc.m
	switch st.Pick(weights...) {
	case 0:
		m.Malloc(mallocSize(st, m.unflushed), st.Pick(3, 1, 2))
	case 1:
		m.WriteBinary(mallocSize(st, m.unflushed), st.Chance(1, 3))
	case 2:
		m.LateFill(st)
	case 3:
		if m.target != nil && m.epoch > 0 && !m.multiFlushBytes {
			// multi-flush bytes writers are not defined by the property: only an extra
			// Flush with nothing written
			if len(m.items) == 0 {
				m.Flush()
			}
			return
		}
		m.Flush()
	case 4:
		m.Malloc(-1-st.Choose(3), 0)
	}
}

func runC05(c *sim.Ctx) {
	cfg := c.Cfg
	c.SetupAlloc(allocCfg(cfg, false))
	den := 25
	if c.Tier == "thorough" {
		den = 6
	}
	if !cfg.Chance(1, den) {
		c05Body(c, 0)
		return
	}
	// fault enumeration: the same history is executed fault-free, then again with the sink
	// failing at its k-th write for every k up to the number of writes it saw
	c.Count("probe.every_kth_sink_write_enumerated")
	first := c.Fork("e/", nil)
	writes := c05Body(first, -1)
	rec := first.ForkRecorded()
	c.Join(first)
	for k := 1; k <= writes && k <= 40; k++ {
		ch := c.Fork("e/", rec)
		c05Body(ch, k)
		c.Join(ch)
	}
}

// c05Body runs one writer history on c's tape. failAt: 0 = tape decides about sink faults,
// -1 = no sink fault, k>0 = the sink fails at its k-th write. Returns the sink's write count.
func c05Body(c *sim.Ctx, failAt int) int {
	cfg := c.Cfg
	sc := newWriterScenario(c)
	m := sc.m
	if sc.sink != nil && failAt != 0 {
		if failAt < 0 {
			sc.sink.FailAt = 0
		} else {
			sc.sink.FailAt = failAt
			sc.sink.AcceptEighths = failAt * 3
			if sc.sink.Err == nil {
				sc.sink.Err = sim.TermError(2)
			}
			c.Count("fault.cfg.sink_fails_at_kth_write")
		}
	}
	co := newCoTenant(c, cfg.Chance(1, 2))
	weights := []int{3 + cfg.Choose(4), cfg.Choose(4), cfg.Choose(4), cfg.Choose(3), cfg.Choose(2)}
	maxOps := 60
	if c.Tier == "thorough" {
		maxOps = 300
	}
	nops := 1 + cfg.Choose(maxOps)
	st := c.Tape.S("ops")
	afterFail := 0
	if cfg.Chance(1, 15) {
		// doubling run: every request is as large as everything written so far, so the buffer
		// grows at every step (many outgrown buffers within one flush cycle), then early regions
		// are filled late
		k := 5 + cfg.Choose(10)
		c.Count("cfg.doubling_run")
		for i := 0; i < k && !m.failed && m.unflushed < 3<<20; i++ {
			n := m.unflushed + st.Choose(2)
			if n == 0 {
				n = 1
			}
			if st.Chance(1, 4) {
				m.WriteBinary(n, false)
			} else {
				m.Malloc(n, st.Pick(1, 1, 3))
			}
		}
		for i := 0; i < 4; i++ {
			m.LateFill(st)
		}
	}
	if cfg.Chance(1, 150) {
		// megabyte-scale cycle
		c.Count("cfg.megabyte_cycle")
		for i := 0; i < 2+cfg.Choose(4) && !m.failed; i++ {
			n := 300000 + st.Choose(900000)
			if st.Chance(1, 2) {
				m.WriteBinary(n, false)
			} else {
				m.Malloc(n, st.Pick(1, 1, 2))
			}
		}
		m.LateFill(st)
	}
	for i := 0; i < nops; i++ {
		if m.target != nil && m.epoch > 0 {
			break
		}
		sc.step(st, weights)
		m.checkPayloads("after an operation")
		co.step()
		if m.failed {
			afterFail++
			if afterFail > 6 {
				break
			}
		}
	}
	// final flush: fill whatever is still open first (mostly), then flush
	if !m.failed {
		for _, it := range m.items {
			if it.reg != nil && it.reg.filled != nil && st.Chance(7, 8) {
				m.fill(it.reg, 0, len(it.reg.b))
			}
		}
		if m.target == nil || m.epoch == 0 {
			m.Flush()
		}
		if m.target != nil && st.Chance(1, 2) {
			m.Flush() // an extra Flush with nothing written changes nothing
		}
	}
	if m.target != nil && len(m.initial) > 0 && len(m.expected)+len(m.initial) > cap(m.backing) {
		c.Count("probe.bytes_writer_grown_out_of_initial")
	}
	m.checkPayloads("at the end of the run")
	if sc.sink != nil && !m.failed {
		if d := firstDiff(sc.sink.Got, m.expected); d >= 0 {
			c.Fail("SINK_MISMATCH", m.site("end"), sim.F{"total": true}, "over all flushes the sink received %d bytes, expected %d; first difference at %d", len(sc.sink.Got), len(m.expected), d)
		}
	}
	co.finish()
	mcache.SimCheckPoison()
	if sc.sink != nil {
		return sc.sink.Writes
	}
	return 0
}
