package props

import (
	"runtime"

	"github.com/bytedance/gopkg/lang/mcache"

	"verif/harness/sim"
)

var ioEOF = sim.TermError(0)

// coTenant is the adversarial other user of the shared buffer pool: at tape-chosen points
// between two operations of the instance under test it allocates from every size class that
// currently has free buffers (ledger/fence mode) or from tape-chosen classes (real mode),
// overwrites what it gets with its own pattern, and frees or keeps the buffers.
type coTenant struct {
	c    *sim.Ctx
	st   *sim.Stream
	on   bool
	held []coBuf
	seq  byte
}

type coBuf struct {
	b   []byte
	tag byte
}

func newCoTenant(c *sim.Ctx, on bool) *coTenant {
	t := &coTenant{c: c, st: c.Tape.S("cotenant"), on: on}
	if on {
		c.Count("cfg.cotenant_on")
		c.Tracef("cfg  co-tenant on")
	}
	return t
}

func coFill(b []byte, tag byte) {
	for i := range b {
		b[i] = tag ^ byte(i*7)
	}
}

func (t *coTenant) verify(when string) {
	for _, h := range t.held {
		for i := range h.b {
			if h.b[i] != h.tag^byte(i*7) {
				t.c.Fail("COTENANT_DAMAGED", t.c.Op, sim.F{}, "a %d-byte buffer owned by the co-tenant was modified at offset %d %s (the instance wrote to memory it had released)", len(h.b), i, when)
			}
		}
	}
}

func (t *coTenant) step() {
	if !t.on || !t.st.Chance(1, 3) {
		return
	}
	c := t.c
	sim.OwnerOverride = 99
	defer func() { sim.OwnerOverride = -1 }()
	t.verify("between operations")
	before := mcache.SimGetStats().CrossTaskReuse
	var classes []int
	if mcache.SimMode() == mcache.ModeReal {
		k := 1 + t.st.Choose(3)
		for i := 0; i < k; i++ {
			classes = append(classes, []int{12, 13, 14, 15, 16, 17, 3, 6, 9}[t.st.Choose(9)])
		}
	} else {
		classes = mcache.SimFreeClasses()
		if len(classes) > 6 {
			classes = classes[:6]
		}
	}
	got := 0
	for _, cl := range classes {
		b := mcache.Malloc(1 << cl)
		t.seq++
		coFill(b, t.seq)
		got++
		if t.st.Chance(1, 3) && len(t.held) < 8 {
			t.held = append(t.held, coBuf{b, t.seq})
		} else {
			mcache.Free(b)
		}
	}
	if len(t.held) > 0 && t.st.Chance(1, 3) {
		k := t.st.Choose(len(t.held))
		mcache.Free(t.held[k].b)
		t.held = append(t.held[:k], t.held[k+1:]...)
	}
	if mcache.SimGetStats().CrossTaskReuse > before {
		c.Count("probe.cotenant_got_buffer_freed_by_instance")
	}
	if got > 0 {
		c.Count("fault.fired.cotenant_scribble")
		c.Tracef("  co-tenant: took and overwrote %d pooled buffer(s) (classes %v), holds %d", got, classes, len(t.held))
		c.Ev(0x91, uint64(got))
	}
	if t.st.Chance(1, 40) {
		runtime.GC()
		runtime.GC()
		c.Count("fault.fired.pool_flush")
		c.Tracef("  pool flush (GC x2)")
		c.Ev(0x92)
	}
}

func (t *coTenant) finish() {
	if !t.on {
		return
	}
	t.verify("at the end of the run")
	sim.OwnerOverride = 99
	for _, h := range t.held {
		mcache.Free(h.b)
	}
	sim.OwnerOverride = -1
	t.held = nil
}
