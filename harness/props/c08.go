package props

import (
	"fmt"
	"io"

	"github.com/bytedance/gopkg/lang/dirtmake"
	"github.com/bytedance/gopkg/lang/mcache"
	"github.com/cloudwego/gopkg/bufiox"
	"github.com/cloudwego/gopkg/protocol/thrift"

	"verif/harness/ref"
	"verif/harness/sim"
)

func init() {
	sim.Register(&sim.Prop{
		ID: "C08", Run: runC08, QuickRuns: 200000, ThoroughRuns: 4000000,
		Rule:          "Each run: 1..6 cases; a case is a generated value tree (all types, chains nested 1..70 for every container kind, fixed-size fast-path containers) whose encoding passes through the fault transport (truncation at a cut point biased to structural boundaries, corruption of 1..3 structural bytes - type tags incl. >= 0x80, sizes 0x7fffffff/0x80000000/0xffffffff/size+-1, field ids - or a hostile requested type) and is delivered to all five skippers, the three stream-fed ones through a simulated Source with per-case fragmentation and terminal error. Oracle: the reference parser's verdict on the delivered bytes (Appendix A table).",
		Components:    realComponents,
		Probes:        []string{"verdict.OK", "verdict.TRUNCATED", "verdict.NEGATIVE", "verdict.UNKNOWN", "depth_63", "depth_64_boundary", "depth_ge_65", "dontcare_empty_container", "sim_oom_accepted", "tag_ge_0x80_parsed", "every_cut_point_enumerated"},
		NotInjectable: []string{"stall of the source under ReaderSkipDecoder (it implements io.ReadFull, which by convention spins on a reader that returns (0,nil) forever)"},
	})
}

const c08Ceiling = 16 << 20

type skipOutcome struct {
	accepted bool
	n        int
	bytes    []byte
	hasBytes bool
	err      error
	oom      *dirtmake.SimOOM
}

// judgeSkip applies the Appendix A verdict table to one facility's outcome.
func judgeSkip(c *sim.Ctx, site string, buffers bool, mc *malformedCase, o skipOutcome) {
	v := mc.verdict
	facts := sim.F{"ref": ref.KindNames[v.Kind], "type_ge_0x80": mc.t >= 0x80}
	if o.oom != nil {
		if v.Kind == ref.Truncated && buffers && v.BigDeclared >= c08Ceiling/4 {
			c.Count("probe.sim_oom_accepted")
			return
		}
		if v.Kind == ref.Negative {
			c.Fail("OOM_ON_NEGATIVE", site, facts, "a negative declared size at offset %d was not rejected but turned into a %d-byte allocation request (%s);%s", v.At, o.oom.Size, o.oom.Where, mc.desc)
		}
		c.Fail("OOM_UNEXPECTED", site, facts, "%s asked for %d bytes although the largest positive size declared on the walked path is %d;%s", o.oom.Where, o.oom.Size, v.BigDeclared, mc.desc)
	}
	mayAccept := v.Kind == ref.OK && v.Depth <= 64
	mustAccept := v.Kind == ref.OK && v.Depth <= 63 && !v.DontCare
	if o.accepted {
		if !mayAccept {
			facts["depth_ge_65"] = v.Kind == ref.OK
			c.Fail("ACCEPTED_MALFORMED", site, facts, "accepted %d bytes although the reference verdict on the %d delivered bytes is %s at offset %d (depth %d);%s", o.n, len(mc.delivered), ref.KindNames[v.Kind], v.At, v.Depth, mc.desc)
		}
		if o.n != v.Len {
			facts["delta"] = o.n - v.Len
			c.Fail("SKIP_LEN", site, facts, "accepted with extent %d, the grammar says %d;%s", o.n, v.Len, mc.desc)
		}
		if o.hasBytes {
			if d := firstDiff(o.bytes, mc.delivered[:v.Len]); d >= 0 {
				c.Fail("SKIP_BYTES", site, facts, "returned %d bytes that differ from the value's bytes at %d;%s", len(o.bytes), d, mc.desc)
			}
		}
		return
	}
	if mustAccept {
		c.Fail("REJECTED_VALID", site, facts, "rejected (%v) a complete well-formed value of %d bytes, depth %d;%s", o.err, v.Len, v.Depth, mc.desc)
	}
}

func runC08(c *sim.Ctx) {
	cfg := c.Cfg
	// the span-cache switch is process-wide configuration: every scenario runs under both
	thrift.SetSpanCache(cfg.Chance(1, 2))
	defer thrift.SetSpanCache(false)
	a := allocCfg(cfg, false)
	a.Ceiling = c08Ceiling
	c.SetupAlloc(a)
	st := c.Tape.S("ops")
	ncases := 1 + cfg.Choose(6)
	for k := 0; k < ncases; k++ {
		mc := genMalformed(c, st, 70)
		v := mc.verdict
		c.Count("probe.verdict." + ref.KindNames[v.Kind])
		switch {
		case v.Kind == ref.OK && v.Depth == 63:
			c.Count("probe.depth_63")
		case v.Kind == ref.OK && v.Depth == 64:
			c.Count("probe.depth_64_boundary")
		case v.Kind == ref.OK && v.Depth >= 65:
			c.Count("probe.depth_ge_65")
		}
		if v.DontCare {
			c.Count("probe.dontcare_empty_container")
		}
		if v.Kind == ref.Unknown && v.Tag >= 0x80 {
			c.Count("probe.tag_ge_0x80_parsed")
		}
		if v.Kind != ref.OK || mc.corrupted > 0 {
			c.NonTriv = true
		}
		c.Tracef("case%d type %#x, %d bytes delivered (%d sent):%s  => reference %s len=%d depth=%d at=%d big=%d dontcare=%v",
			k, mc.t, len(mc.delivered), len(mc.orig), mc.desc, ref.KindNames[v.Kind], v.Len, v.Depth, v.At, v.BigDeclared, v.DontCare)
		c.Abs(uint32(v.Kind)<<20 | uint32(mc.t)<<8 | sizeBucket(len(mc.delivered)))
		c.Ev(uint64(v.Kind), uint64(len(mc.delivered)), uint64(v.Len))
		skipAllFacilities(c, cfg, mc, k)
		// fault enumeration over crash points: every cut point of this message
		limit, den := 256, 40
		if c.Tier == "thorough" {
			limit, den = 2048, 10
		}
		if len(mc.pre) <= limit && ref.Parse(mc.pre, mc.t).BigDeclared < 1<<20 && cfg.Chance(1, den) {
			c.Count("probe.every_cut_point_enumerated")
			for cut := 0; cut <= len(mc.pre); cut++ {
				m2 := *mc
				m2.delivered = mc.pre[:cut]
				m2.cut = cut
				m2.desc = fmt.Sprintf("%s cut@%d/%d (enumerated)", mc.baseDesc, cut, len(mc.pre))
				m2.verdict = ref.Parse(m2.delivered, m2.t)
				c.Count("fault.fired.truncation")
				skipAllFacilities(c, cfg, &m2, k)
			}
		}
	}
	mcache.SimCheckPoison()
}

func skipAllFacilities(c *sim.Ctx, cfg *sim.Stream, mc *malformedCase, k int) {
	t := thrift.TType(mc.t)
	d := mc.delivered
	flat := append([]byte(nil), d...)
	c.Ops += 5
	// 1. Binary.Skip
	{
		var o skipOutcome
		out := c.Guard("Skip/Binary", func() { o.n, o.err = thrift.Binary.Skip(flat, t) })
		o.oom = out.OOM
		o.accepted = o.err == nil && o.oom == nil
		judgeSkip(c, "Skip/Binary", false, mc, o)
	}
	// 2. BytesSkipDecoder
	{
		var o skipOutcome
		sd := thrift.NewBytesSkipDecoder(flat)
		out := c.Guard("Next/BytesSkipDecoder", func() { o.bytes, o.err = sd.Next(t) })
		sd.Release()
		o.oom = out.OOM
		o.accepted = o.err == nil && o.oom == nil
		o.n, o.hasBytes = len(o.bytes), true
		judgeSkip(c, "Next/BytesSkipDecoder", false, mc, o)
	}
	if firstDiff(flat, d) >= 0 {
		c.Fail("INPUT_MODIFIED", "Skip/Binary", sim.F{}, "a buffer skipper modified its input")
	}
	mkSrc := func(name string) *sim.Source {
		scfg := sim.RandomSourceCfg(cfg, len(d))
		if cfg.Chance(2, 3) {
			scfg.Err = io.EOF
		}
		s := sim.NewSource(c, name, d, scfg)
		s.BeginCall(len(d))
		return s
	}
	// 3. BufferReader.Skip over DefaultReader over Source
	{
		var o skipOutcome
		src := mkSrc("br")
		r := bufiox.NewDefaultReader(src)
		br := thrift.NewBufferReader(r)
		out := c.Guard("Skip/BufferReader", func() { o.err = br.Skip(t) })
		o.oom = out.OOM
		o.accepted = o.err == nil && o.oom == nil
		o.n = r.ReadLen()
		judgeSkip(c, "Skip/BufferReader", true, mc, o)
		br.Recycle()
		c.Guard("Release/DefaultReader", func() { r.Release(nil) })
	}
	// 4. SkipDecoder.Next over DefaultReader over Source
	{
		var o skipOutcome
		src := mkSrc("sd")
		r := bufiox.NewDefaultReader(src)
		sd := thrift.NewSkipDecoder(r)
		out := c.Guard("Next/SkipDecoder", func() { o.bytes, o.err = sd.Next(t) })
		o.oom = out.OOM
		o.accepted = o.err == nil && o.oom == nil
		o.n, o.hasBytes = r.ReadLen(), true
		if o.accepted && len(o.bytes) != o.n {
			c.Fail("SKIP_LEN", "Next/SkipDecoder", sim.F{"bytes_vs_readlen": true}, "returned %d bytes but consumed %d", len(o.bytes), o.n)
		}
		judgeSkip(c, "Next/SkipDecoder", true, mc, o)
		sd.Release()
		c.Guard("Release/DefaultReader", func() { r.Release(nil) })
	}
	// 5. ReaderSkipDecoder.Next directly over Source
	{
		var o skipOutcome
		src := mkSrc("rsd")
		sd := thrift.NewReaderSkipDecoder(src)
		out := c.Guard("Next/ReaderSkipDecoder", func() { o.bytes, o.err = sd.Next(t) })
		o.oom = out.OOM
		o.accepted = o.err == nil && o.oom == nil
		o.n, o.hasBytes = len(o.bytes), true
		if o.accepted && src.Pos != o.n {
			c.Fail("READ_AHEAD", "Next/ReaderSkipDecoder", sim.F{"delta": src.Pos - o.n}, "returned %d bytes but took %d from the source", o.n, src.Pos)
		}
		judgeSkip(c, "Next/ReaderSkipDecoder", true, mc, o)
		sd.Release()
	}
}
