package props

import (
	"bytes"
	"io"

	"github.com/bytedance/gopkg/lang/mcache"
	"github.com/cloudwego/gopkg/bufiox"
	"github.com/cloudwego/gopkg/protocol/thrift"

	"verif/harness/ref"
	"verif/harness/sim"
)

func init() {
	sim.Register(&sim.Prop{
		ID: "C02", Run: runC02, QuickRuns: 150000, ThoroughRuns: 8000000,
		Rule:       "Each run: 1..8 well-formed typed value trees (all 11 types, the 11x11 key/value pairs swept over the batch, containers of 0/1/2/many, fixed- and variable-size elements, chains nested up to 63, strings from 0 bytes to beyond the reader's buffer) encoded back to back with keyed raw chunks in between and keyed trailing bytes, delivered by a simulated Source (all fragmentation profiles, zero reads, last bytes together with io.EOF) to one stream-fed skipper (BufferReader.Skip / SkipDecoder.Next over bufiox.DefaultReader, ReaderSkipDecoder.Next directly over the Source), interleaved with Release, ordinary reads and pooled-decoder reuse; the flat bytes also go to BytesSkipDecoder and Binary.Skip. Oracle: reference encoder length/bytes, ReadLen delta, Source cursor (no read-ahead).",
		Components: realComponents,
		Probes:     []string{"value_larger_than_buffer", "value_last_bytes_with_eof", "eof_right_after_value", "depth_ge_32", "rsd_grow_with_prefix", "decoder_reused_from_pool", "skip_after_release", "pool_decoy_failed_use"},
	})
}

type skipItem struct {
	v    *ref.Value
	enc  []byte
	raw  bool
	off  int
	note string
}

// bigValuesProfile is set by C14's hot profile before its tasks start (read-only afterwards).
var bigValuesProfile = false

// genSkipStream builds the item list and the stream.
func genSkipStream(c *sim.Ctx, st *sim.Stream, maxDepth int) (items []skipItem, stream []byte) {
	o := &ref.GenOpts{MaxBytes: 6000, BigString: true, HugeString: !bigValuesProfile, MaxDepth: 6}
	nv := 1 + st.Choose(8)
	key := uint64(c.Seed)*911 + uint64(c.Index)*65537 + 3
	for i := 0; i < nv; i++ {
		var v *ref.Value
		note := ""
		if bigValuesProfile && st.Chance(1, 2) {
			// C14's hot profile: values beyond every small-buffer threshold (32 KiB, 64 KiB)
			n := []int{33000, 40000, 66000, 70000}[st.Choose(4)]
			v = &ref.Value{T: ref.TString, Bin: sim.KeyedBytes(key+uint64(i), 0, n)}
			enc := ref.Encode(v)
			items = append(items, skipItem{v: v, enc: enc, off: len(stream), note: "big"})
			stream = append(stream, enc...)
			continue
		}
		if !bigValuesProfile && st.Chance(1, 400) {
			// more than a MiB of fixed-size entries, entry widths that do not divide 2^20
			kt := []byte{ref.TI32, ref.TI64, ref.TI16, ref.TBool, ref.TDouble}[st.Choose(5)]
			vt := []byte{ref.TI16, ref.TBool, ref.TByte, ref.TI32, ref.TI64}[st.Choose(5)]
			n := 100000 + st.Choose(150000)
			v = &ref.Value{T: ref.TMap, KT: kt, VT: vt, Elems: make([]*ref.Value, 0, 2*n)}
			kv, vv := ref.GenScalar(st, kt, o), ref.GenScalar(st, vt, o)
			for j := 0; j < n; j++ {
				v.Elems = append(v.Elems, kv, vv)
			}
			enc := ref.Encode(v)
			c.Count("probe.fixed_container_over_a_MiB")
			items = append(items, skipItem{v: v, enc: enc, off: len(stream), note: "hugefixed"})
			stream = append(stream, enc...)
			continue
		}
		switch st.Pick(6, 2, 2, 1, 1) {
		case 4:
			v = ref.GenWide(st, []int{63, 64, 65, 66, 70, 130, 200}[st.Choose(7)])
			note = "wide"
		case 0:
			budget := []int{64, 600, 6000, 20000}[st.Pick(3, 3, 2, 1)]
			v = ref.GenValue(st, ref.GenType(st), o, 0, &budget)
		case 1:
			// 11x11 sweep: the pair is a function of the run index so a batch covers all
			k := (c.Index + i) % 121
			budget := 800
			v = ref.GenPair(st, ref.AllTypes[k/11], ref.AllTypes[k%11], o, &budget)
			note = "pair"
		case 2:
			// siblings generated next to the chain child may nest one level deeper than the
			// chain itself: keep the whole value within the 63 levels the property speaks of
			d := 1 + st.Choose(maxDepth-1)
			v = ref.GenChain(st, d, o)
			if ref.Depth(v) > maxDepth {
				panic("harness invariant broken: generated chain deeper than intended")
			}
			if d >= 32 {
				c.Count("probe.depth_ge_32")
			}
			note = "chain"
		default:
			// fixed-size-element container with many elements (fast path) or a big string
			if st.Chance(1, 2) {
				et := []byte{ref.TBool, ref.TByte, ref.TI16, ref.TI32, ref.TI64, ref.TDouble}[st.Choose(6)]
				n := st.Choose(3000)
				v = &ref.Value{T: ref.TList, ET: et}
				for j := 0; j < n; j++ {
					v.Elems = append(v.Elems, ref.GenScalar(st, et, o))
				}
			} else {
				v = ref.GenScalar(st, ref.TString, o)
			}
		}
		enc := ref.Encode(v)
		if len(enc) > 4096 {
			c.Count("probe.value_larger_than_buffer")
		}
		items = append(items, skipItem{v: v, enc: enc, off: len(stream), note: note})
		stream = append(stream, enc...)
		if st.Chance(1, 3) {
			n := 1 + st.Choose(40)
			raw := sim.KeyedBytes(key, len(stream), n)
			items = append(items, skipItem{raw: true, enc: raw, off: len(stream)})
			stream = append(stream, raw...)
		}
	}
	// trailing bytes
	if st.Chance(2, 3) {
		n := []int{1, 2, 7, 64, 5000}[st.Choose(5)]
		raw := sim.KeyedBytes(key, len(stream), n)
		items = append(items, skipItem{raw: true, enc: raw, off: len(stream), note: "trailing"})
		stream = append(stream, raw...)
	} else {
		c.Count("probe.eof_right_after_value")
	}
	return
}

// poolDecoy uses and releases one pooled object of every kind on an input that fails in
// the middle of a value: whatever state such a use leaves in the pooled object must not leak
// into the next, well-formed use.
func poolDecoy(c *sim.Ctx, st *sim.Stream) {
	o := &ref.GenOpts{MaxDepth: 4}
	budget := 200
	v := ref.GenValue(st, []byte{ref.TStruct, ref.TMap, ref.TList, ref.TString}[st.Choose(4)], o, 0, &budget)
	enc := ref.Encode(v)
	if len(enc) < 2 {
		return
	}
	cut := enc[:1+st.Choose(len(enc)-1)]
	t := thrift.TType(v.T)
	c.Count("probe.pool_decoy_failed_use")
	c.Guard("decoy", func() {
		switch st.Choose(4) {
		case 0:
			sd := thrift.NewBytesSkipDecoder(append([]byte(nil), cut...))
			_, _ = sd.Next(t)
			sd.Release()
		case 1:
			r := bufiox.NewBytesReader(append([]byte(nil), cut...))
			sd := thrift.NewSkipDecoder(r)
			_, _ = sd.Next(t)
			sd.Release()
			r.Release(nil)
		case 2:
			sd := thrift.NewReaderSkipDecoder(bytes.NewReader(cut))
			_, _ = sd.Next(t)
			sd.Release()
		case 3:
			r := bufiox.NewBytesReader(append([]byte(nil), cut...))
			br := thrift.NewBufferReader(r)
			_ = br.Skip(t)
			br.Recycle()
			r.Release(nil)
		}
	})
}

func runC02(c *sim.Ctx) {
	cfg := c.Cfg
	// the span-cache switch is process-wide configuration: every scenario runs under both
	thrift.SetSpanCache(cfg.Chance(1, 2))
	defer thrift.SetSpanCache(false)
	c.SetupAlloc(allocCfg(cfg, false))
	st := c.Tape.S("ops")
	items, stream := genSkipStream(c, st, 63)
	scfg := sim.RandomSourceCfg(cfg, len(stream))
	scfg.Err = io.EOF
	if cfg.Chance(1, 3) {
		scfg.Err = sim.TermError(cfg.Choose(sim.NumTermErrors))
	}
	src := sim.NewSource(c, "s", stream, scfg)
	facility := cfg.Choose(3)
	c.Tracef("cfg  facility=%s stream=%d bytes in %d items; %s", []string{"BufferReader.Skip", "SkipDecoder.Next", "ReaderSkipDecoder.Next"}[facility], len(stream), len(items), scfg.String())
	co := newCoTenant(c, cfg.Chance(1, 3))
	if cfg.Chance(1, 2) {
		poolDecoy(c, st)
	}
	switch facility {
	case 0, 1:
		skipOverBufiox(c, st, items, stream, src, facility, co)
	case 2:
		skipOverReader(c, st, items, stream, src, co)
	}
	// differential partners on the flat bytes
	flatPartners(c, items, stream)
	co.finish()
	mcache.SimCheckPoison()
}

func skipOverBufiox(c *sim.Ctx, st *sim.Stream, items []skipItem, stream []byte, src *sim.Source, facility int, co *coTenant) {
	var r bufiox.Reader
	var callerMem, callerSnap []byte
	if st.Chance(1, 4) {
		// bytes-backed buffered reader over caller memory (spare capacity, maybe a power of two)
		capTotal := len(stream) + []int{0, 1, 64}[st.Choose(3)]
		if st.Chance(1, 2) {
			p := 1
			for p < capTotal {
				p <<= 1
			}
			capTotal = p
		}
		callerMem = make([]byte, len(stream), capTotal)
		copy(callerMem, stream)
		callerSnap = append([]byte(nil), callerMem...)
		mcache.SimRegisterCaller(callerMem)
		c.GuardNoOOM("NewBytesReader", func() { r = bufiox.NewBytesReader(callerMem) })
		c.Count("cfg.reader.bytes")
		// mark the source as fully handed out so that its accounting stays meaningful
		src.Pos, src.Issued, src.WithErrCnt = len(stream), true, 0
	} else {
		c.GuardNoOOM("NewDefaultReader", func() { r = bufiox.NewDefaultReader(src) })
	}
	defer func() {
		if callerMem != nil && firstDiff(callerMem, callerSnap) >= 0 {
			c.Fail("CALLER_MODIFIED", "BytesReader", sim.F{}, "the caller's slice given to NewBytesReader was modified")
		}
	}()
	var br *thrift.BufferReader
	var sd *thrift.SkipDecoder
	site := "Skip/BufferReader"
	if facility == 0 {
		br = thrift.NewBufferReader(r)
	} else {
		sd = thrift.NewSkipDecoder(r)
		site = "Next/SkipDecoder"
	}
	released := false
	for i, it := range items {
		c.Ops++
		src.BeginCall(len(it.enc))
		before := r.ReadLen()
		if it.raw {
			var got []byte
			var err error
			c.GuardNoOOM("Next/DefaultReader", func() { got, err = r.Next(len(it.enc)) })
			if err != nil || firstDiff(got, it.enc) >= 0 {
				c.Fail("SKIP_STREAM_DESYNC", site, sim.F{"err": err != nil}, "after the skips the reader did not deliver the %d raw bytes at stream offset %d (err %v): the previous skip consumed the wrong amount", len(it.enc), it.off, err)
			}
			c.Abs(0x20000 | sizeBucket(len(it.enc)))
			continue
		}
		t := thrift.TType(it.v.T)
		c.Tracef("item%d skip type %d, %d bytes at offset %d %s", i, it.v.T, len(it.enc), it.off, it.note)
		var err error
		var buf []byte
		c.GuardNoOOM(site, func() {
			if facility == 0 {
				err = br.Skip(t)
			} else {
				buf, err = sd.Next(t)
			}
		})
		withEOF := src.Issued && src.WithErrCnt > 0
		if withEOF && it.off+len(it.enc) == len(stream) {
			c.Count("probe.value_last_bytes_with_eof")
		}
		if err != nil {
			c.Fail("REJECTED_VALID", site, sim.F{"data_with_error": withEOF, "type": int(it.v.T)},
				"a well-formed %d-byte value of type %d at stream offset %d (all of it deliverable) was rejected: %v", len(it.enc), it.v.T, it.off, err)
		}
		if d := r.ReadLen() - before; d != len(it.enc) {
			c.Fail("SKIP_LEN", site, sim.F{"delta": d - len(it.enc), "type": int(it.v.T)}, "skipping a %d-byte value of type %d consumed %d bytes", len(it.enc), it.v.T, d)
		}
		if facility == 1 {
			if d := firstDiff(buf, it.enc); d >= 0 {
				c.Fail("SKIP_BYTES", site, sim.F{"type": int(it.v.T), "len_delta": len(buf) - len(it.enc)}, "the decoder returned %d bytes for a %d-byte value; first difference at %d", len(buf), len(it.enc), d)
			}
		}
		c.Abs(0x10000<<uint(facility) | uint32(it.v.T)<<8 | sizeBucket(len(it.enc)))
		c.Ev(uint64(it.v.T), uint64(len(it.enc)))
		if released {
			c.Count("probe.skip_after_release")
		}
		// interleavings: Release, pooled decoder reuse, co-tenant
		switch st.Pick(5, 2, 1) {
		case 1:
			c.GuardNoOOM("Release/DefaultReader", func() { r.Release(nil) })
			released = true
			c.Tracef("  Release")
		case 2:
			if facility == 0 {
				br.Recycle()
				br = thrift.NewBufferReader(r)
			} else {
				sd.Release()
				sd = thrift.NewSkipDecoder(r)
			}
			c.Count("probe.decoder_reused_from_pool")
		}
		co.step()
	}
	if facility == 0 {
		br.Recycle()
	} else {
		sd.Release()
	}
	c.GuardNoOOM("Release/DefaultReader", func() { r.Release(nil) })
}

func skipOverReader(c *sim.Ctx, st *sim.Stream, items []skipItem, stream []byte, src *sim.Source, co *coTenant) {
	site := "Next/ReaderSkipDecoder"
	sd := thrift.NewReaderSkipDecoder(src)
	var last []byte
	var lastEnc []byte
	for i, it := range items {
		c.Ops++
		src.BeginCall(len(it.enc))
		if it.raw {
			// ordinary read directly from the source by the caller
			got := make([]byte, len(it.enc))
			_, err := io.ReadFull(src, got)
			if firstDiff(got, it.enc) >= 0 {
				c.Fail("READ_AHEAD", site, sim.F{}, "the bytes after the skipped value (stream offset %d) are not what the source delivers next (err %v): the decoder consumed bytes beyond the value", it.off, err)
			}
			continue
		}
		t := thrift.TType(it.v.T)
		c.Tracef("item%d skip type %d, %d bytes at offset %d %s", i, it.v.T, len(it.enc), it.off, it.note)
		var err error
		var buf []byte
		mallocs := mcache.SimGetStats().Mallocs
		c.GuardNoOOM(site, func() { buf, err = sd.Next(t) })
		if mcache.SimGetStats().Mallocs > mallocs+1 {
			c.Count("probe.rsd_grow_with_prefix")
			c.NonTriv = true
		}
		withEOF := src.Issued && src.WithErrCnt > 0
		if withEOF && it.off+len(it.enc) == len(stream) {
			c.Count("probe.value_last_bytes_with_eof")
		}
		if err != nil {
			c.Fail("REJECTED_VALID", site, sim.F{"data_with_error": withEOF},
				"a well-formed %d-byte value of type %d at stream offset %d (all of it deliverable) was rejected: %v", len(it.enc), it.v.T, it.off, err)
		}
		if d := firstDiff(buf, it.enc); d >= 0 {
			c.Fail("SKIP_BYTES", site, sim.F{"type": int(it.v.T), "len_delta": len(buf) - len(it.enc)}, "the decoder returned %d bytes for a %d-byte value; first difference at %d", len(buf), len(it.enc), d)
		}
		if src.Pos != it.off+len(it.enc) {
			c.Fail("READ_AHEAD", site, sim.F{"delta": src.Pos - it.off - len(it.enc)}, "after skipping the value ending at stream offset %d the source cursor is at %d", it.off+len(it.enc), src.Pos)
		}
		last, lastEnc = buf, it.enc
		c.Abs(0x40000 | uint32(it.v.T)<<8 | sizeBucket(len(it.enc)))
		c.Ev(uint64(it.v.T), uint64(len(it.enc)))
		co.step()
		// the result stays valid until the next Next/Release
		var d int
		c.Guard("verify-retained/ReaderSkipDecoder", func() { d = firstDiff(last, lastEnc) })
		if d >= 0 {
			c.Fail("RETAINED_CHANGED", site, sim.F{}, "the bytes returned by the decoder changed before its next Next/Release (offset %d)", d)
		}
		if st.Chance(1, 6) {
			sd.Release()
			sd = thrift.NewReaderSkipDecoder(src)
			c.Count("probe.decoder_reused_from_pool")
		}
	}
	sd.Release()
}

func flatPartners(c *sim.Ctx, items []skipItem, stream []byte) {
	flat := append([]byte(nil), stream...)
	if c.Cfg.Chance(1, 2) {
		poolDecoy(c, c.Tape.S("ops"))
	}
	bsd := thrift.NewBytesSkipDecoder(flat)
	for _, it := range items {
		if it.raw {
			// re-position the bytes decoder after the raw chunk
			bsd.Release()
			bsd = thrift.NewBytesSkipDecoder(flat[it.off+len(it.enc):])
			continue
		}
		t := thrift.TType(it.v.T)
		var n int
		var err error
		c.GuardNoOOM("Skip/Binary", func() { n, err = thrift.Binary.Skip(flat[it.off:], t) })
		if err != nil {
			c.Fail("REJECTED_VALID", "Skip/Binary", sim.F{"type": int(it.v.T)}, "a well-formed %d-byte value of type %d was rejected: %v", len(it.enc), it.v.T, err)
		}
		if n != len(it.enc) {
			c.Fail("SKIP_LEN", "Skip/Binary", sim.F{"delta": n - len(it.enc), "type": int(it.v.T)}, "skipping a %d-byte value of type %d consumed %d bytes", len(it.enc), it.v.T, n)
		}
		var buf []byte
		c.GuardNoOOM("Next/BytesSkipDecoder", func() { buf, err = bsd.Next(t) })
		if err != nil {
			c.Fail("REJECTED_VALID", "Next/BytesSkipDecoder", sim.F{"type": int(it.v.T)}, "a well-formed %d-byte value of type %d was rejected: %v", len(it.enc), it.v.T, err)
		}
		if d := firstDiff(buf, it.enc); d >= 0 {
			c.Fail("SKIP_BYTES", "Next/BytesSkipDecoder", sim.F{"type": int(it.v.T), "len_delta": len(buf) - len(it.enc)}, "the decoder returned %d bytes for a %d-byte value; first difference at %d", len(buf), len(it.enc), d)
		}
	}
	bsd.Release()
	if d := firstDiff(flat, stream); d >= 0 {
		c.Fail("INPUT_MODIFIED", "Skip/Binary", sim.F{}, "the input buffer was modified at offset %d", d)
	}
}

// C09 scenario (c): skip-decoder results retained until their horizon (the bufiox
// reader's Release for SkipDecoder; the next Next/Release for ReaderSkipDecoder).
func init() {
	runC09Skip = func(c *sim.Ctx, st *sim.Stream, maxOps int) {
		c.Count("cfg.scenario.skipdecoder_retention")
		cfg := c.Cfg
		items, stream := genSkipStream(c, st, 20)
		scfg := sim.RandomSourceCfg(cfg, len(stream))
		scfg.Err = io.EOF
		src := sim.NewSource(c, "s", stream, scfg)
		co := newCoTenant(c, true)
		if cfg.Chance(1, 3) {
			skipOverReader(c, st, items, stream, src, co)
			co.finish()
			return
		}
		var r *bufiox.DefaultReader
		c.GuardNoOOM("NewDefaultReader", func() { r = bufiox.NewDefaultReader(src) })
		sd := thrift.NewSkipDecoder(r)
		type kept struct {
			b, want []byte
			grow    int
		}
		var keep []kept
		verify := func(when string) {
			for _, k := range keep {
				var d int
				c.Guard("verify-retained/SkipDecoder", func() { d = firstDiff(k.b, k.want) })
				if d >= 0 {
					c.Fail("RETAINED_CHANGED", "Next/SkipDecoder", sim.F{"growths_since_ge_1": k.grow >= 1}, "a %d-byte skip-decoder result changed %s at byte %d (before the reader's Release)", len(k.b), when, d)
				}
				if k.grow >= 1 {
					c.Count("probe.slice_retained_across_growth")
				}
			}
		}
		for _, it := range items {
			c.Ops++
			src.BeginCall(len(it.enc))
			mall := mcache.SimGetStats().Mallocs
			var buf []byte
			var err error
			if it.raw {
				c.GuardNoOOM("Next/DefaultReader", func() { buf, err = r.Next(len(it.enc)) })
			} else {
				c.GuardNoOOM("Next/SkipDecoder", func() { buf, err = sd.Next(thrift.TType(it.v.T)) })
			}
			if err != nil || firstDiff(buf, it.enc) >= 0 {
				// delivery errors belong to C02/C04: end the run
				c.Fail("SKIP_BYTES", "Next/SkipDecoder", sim.F{}, "wrong result for the item at stream offset %d (err %v)", it.off, err)
			}
			if mcache.SimGetStats().Mallocs != mall {
				for i := range keep {
					keep[i].grow++
				}
				c.NonTriv = true
			}
			if len(keep) < 24 {
				keep = append(keep, kept{b: buf, want: it.enc})
			}
			verify("after a later skip")
			co.step()
			verify("after a co-tenant step")
			if st.Chance(1, 8) {
				c.GuardNoOOM("Release/DefaultReader", func() { r.Release(nil) })
				keep = keep[:0]
			}
		}
		verify("at the end of the run")
		sd.Release()
		c.GuardNoOOM("Release/DefaultReader", func() { r.Release(nil) })
		co.finish()
	}
}
