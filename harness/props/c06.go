package props

import (
	"context"
	"encoding/binary"
	"fmt"

	"github.com/bytedance/gopkg/lang/mcache"
	"github.com/cloudwego/gopkg/bufiox"
	"github.com/cloudwego/gopkg/protocol/ttheader"

	"verif/harness/ref"
	"verif/harness/sim"
)

func init() {
	sim.Register(&sim.Prop{
		ID: "C06", Run: runC06, QuickRuns: 100000, ThoroughRuns: 8000000,
		Rule:       "Each run: 1..3 header parameter sets (any flags/seq id, allow-listed protocol ids, 0..many int/string entries, the ACL-token key, empty and 64KiB-scale strings, every padding residue, header sizes biased to just under/at/over the 64KiB limit) are encoded with Encode into a bufiox.DefaultWriter over a simulated Sink that already holds a random amount of unflushed data (the 14-byte meta region is allocated before and its size field written after 0..many buffer growths), the caller stores the total length and appends a payload; also EncodeToBytes and a bytes-backed writer. The frame is parsed by an independent layout parser, then decoded through a fragmenting Source with Decode and with DecodeFromBytes, and the payload is read back.",
		Components: realComponents,
		Probes:     []string{"header_exactly_65536", "header_over_limit_rejected", "header_just_under_limit", "acl_token", "empty_maps", "padding_residue_0", "padding_residue_1", "padding_residue_2", "padding_residue_3", "meta_before_growth", "encode_failed", "pipelined_connection", "encode_into_failing_writer"},
	})
}

// public key names of the TTHeader transport (inputs, not oracle constants)
var wellKnownStrKeys = []string{"isn", "rip", "tc", "ti", "pcs", "pce", "pss", "prs", "pre", "crrst", "K_ProcessAtTime"}

// faultyWriter is a bufiox.Writer that delegates to a real one but fails its k-th
// Malloc/WriteBinary call (the fault is in the writer handed to Encode, not in its sink).
type faultyWriter struct {
	w      bufiox.Writer
	calls  int
	failAt int
	err    error
	fired  bool
}

func (f *faultyWriter) Malloc(n int) ([]byte, error) {
	f.calls++
	if f.calls == f.failAt {
		f.fired = true
		return nil, f.err
	}
	return f.w.Malloc(n)
}

func (f *faultyWriter) WriteBinary(bs []byte) (int, error) {
	f.calls++
	if f.calls == f.failAt {
		f.fired = true
		return 0, f.err
	}
	return f.w.WriteBinary(bs)
}
func (f *faultyWriter) WrittenLen() int { return f.w.WrittenLen() }
func (f *faultyWriter) Flush() error    { return f.w.Flush() }

// c06FaultyWriter: Encode into a writer that fails at its k-th call, for every k: Encode
// either fails with an error or the frame it reports as written is a valid frame.
func c06FaultyWriter(c *sim.Ctx, st *sim.Stream) {
	ctx := context.Background()
	p := genTTParams(c, st)
	if headerInfoSize(p) > 5000 {
		p.Int, p.Str = nil, map[string]string{"k": "v"}
	}
	ep := ttheader.EncodeParam{Flags: ttheader.HeaderFlags(p.Flags), SeqID: p.Seq, ProtocolID: ttheader.ProtocolID(p.Proto), IntInfo: p.Int, StrInfo: p.Str}
	// count the calls of a fault-free encode
	probe := &faultyWriter{w: bufiox.NewDefaultWriter(sim.NewSink(c, "probe")), failAt: -1}
	if _, err := ttheader.Encode(ctx, ep, probe); err != nil {
		return
	}
	total := probe.calls
	c.Count("probe.encode_into_failing_writer")
	for k := 1; k <= total; k++ {
		c.Ops++
		sink := sim.NewSink(c, "fw")
		fw := &faultyWriter{w: bufiox.NewDefaultWriter(sink), failAt: k, err: sim.ErrCustom}
		var tl []byte
		var err error
		c.GuardNoOOM("Encode/faulty-writer", func() { tl, err = ttheader.Encode(ctx, ep, fw) })
		if err != nil {
			continue
		}
		// Encode reports success although one of its writes failed: then what it wrote must
		// still be a valid frame for these parameters
		hdrLen := fw.w.WrittenLen()
		if len(tl) == 4 {
			binary.BigEndian.PutUint32(tl, uint32(hdrLen-4))
		}
		_ = fw.w.Flush()
		f := ref.ParseTTFrame(sink.Got)
		if !f.OK || f.HeaderLen != len(sink.Got) || !mapsEqualInt(f.Int, p.Int) || !mapsEqualStr(f.Str, p.Str) {
			c.Fail("FRAME_LAYOUT", "Encode/faulty-writer", sim.F{"reason": "error swallowed", "failed_call": k, "of": total},
				"the writer failed at call %d of %d but Encode returned nil, and the %d bytes it wrote are not a valid frame for the parameters (%s)", k, total, len(sink.Got), f.Reason)
		}
	}
}

func genTTString(st *sim.Stream, big bool) string {
	n := []int{3, 0, 1, 10, 40}[st.Pick(5, 2, 2, 3, 2)]
	if n > 3 {
		n = st.Choose(n + 1)
	}
	if big {
		n = []int{1000, 5000, 30000, 65535, 65536, 70000}[st.Pick(4, 3, 2, 1, 1, 1)]
	}
	b := make([]byte, n)
	x := uint64(st.Choose(65536)) + 7
	for i := range b {
		x = x*6364136223846793005 + 1442695040888963407
		b[i] = byte(x >> 33)
		if st.Chance(0, 1) {
			b[i] = 0
		}
	}
	return string(b)
}

// headerInfoSize computes, from the layout description, the unpadded header-info size of a
// parameter set.
func headerInfoSize(p *ref.TTParams) int {
	n := 2
	strN := len(p.Str)
	if tok, ok := p.Str[ref.ACLTokenKey]; ok {
		strN--
		n += 1 + 2 + len(tok)
	}
	if strN > 0 {
		n += 3
		for k, v := range p.Str {
			if k == ref.ACLTokenKey {
				continue
			}
			n += 2 + len(k) + 2 + len(v)
		}
	}
	if len(p.Int) > 0 {
		n += 3
		for _, v := range p.Int {
			n += 2 + 2 + len(v)
		}
	}
	return n
}

func genTTParams(c *sim.Ctx, st *sim.Stream) *ref.TTParams {
	p := &ref.TTParams{}
	p.Flags = uint16(ref.GenScalar(st, ref.TI16, &ref.GenOpts{}).Bits)
	p.Seq = int32(ref.GenScalar(st, ref.TI32, &ref.GenOpts{}).Bits)
	p.Proto = ref.AllowedProtocols[st.Choose(len(ref.AllowedProtocols))]
	ni := []int{1, 0, 2, 5, 30}[st.Pick(4, 3, 3, 2, 1)]
	ns := []int{1, 0, 2, 5, 30}[st.Pick(4, 3, 3, 2, 1)]
	nilMaps := st.Chance(1, 2)
	if ni > 0 || !nilMaps {
		p.Int = map[uint16]string{}
	}
	if ns > 0 || !nilMaps {
		p.Str = map[string]string{}
	}
	if st.Chance(1, 80) {
		// more than a thousand entries in one section (a few KiB of header)
		big := []int{1023, 1024, 1025, 1500, 3000}[st.Choose(5)]
		if st.Chance(1, 2) {
			p.Int = map[uint16]string{}
			for j := 0; j < big; j++ {
				p.Int[uint16(j)] = string(rune('a' + j%26))
			}
			ni = 0
		} else {
			p.Str = map[string]string{}
			for j := 0; j < big; j++ {
				p.Str[fmt.Sprintf("k%d", j)] = ""
			}
			ns = 0
		}
	}
	for i := 0; i < ni; i++ {
		k := uint16(st.Choose(65536))
		if st.Chance(1, 2) {
			k = uint16(st.Choose(28))
		}
		p.Int[k] = genTTString(st, st.Chance(1, 40))
	}
	for i := 0; i < ns; i++ {
		k := genTTString(st, st.Chance(1, 60))
		if st.Chance(1, 3) {
			// the well-known string keys of the public API (metakey.go) are ordinary keys too
			k = wellKnownStrKeys[st.Choose(len(wellKnownStrKeys))]
		}
		p.Str[k] = genTTString(st, st.Chance(1, 40))
	}
	if st.Chance(1, 4) {
		if p.Str == nil {
			p.Str = map[string]string{}
		}
		p.Str[ref.ACLTokenKey] = genTTString(st, st.Chance(1, 30))
		c.Count("probe.acl_token")
	}
	if len(p.Int) == 0 && len(p.Str) == 0 {
		c.Count("probe.empty_maps")
	}
	// aim at the 64 KiB limit: add one filler entry so that the unpadded size lands on a
	// tape-chosen target around 65536
	if st.Chance(1, 5) {
		cur := headerInfoSize(p)
		target := []int{65536, 65535, 65534, 65533, 65532, 65537, 65538, 65540, 65528, 65600}[st.Choose(10)]
		need := target - cur
		if p.Int == nil {
			p.Int = map[uint16]string{}
		}
		key := uint16(60000)
		for {
			if _, ok := p.Int[key]; !ok {
				break
			}
			key++
		}
		overhead := 4
		if len(p.Int) == 0 {
			overhead += 3
		}
		if need-overhead >= 0 && need-overhead < 65536 {
			b := make([]byte, need-overhead)
			for i := range b {
				b[i] = 'f'
			}
			p.Int[key] = string(b)
		}
	}
	return p
}

func mapsEqualInt(a, b map[uint16]string) bool {
	if len(a) != len(b) {
		return false
	}
	for k, v := range a {
		if w, ok := b[k]; !ok || w != v {
			return false
		}
	}
	return true
}

func mapsEqualStr(a, b map[string]string) bool {
	if len(a) != len(b) {
		return false
	}
	for k, v := range a {
		if w, ok := b[k]; !ok || w != v {
			return false
		}
	}
	return true
}

func describeParams(p *ref.TTParams) string {
	return fmt.Sprintf("flags=%#x seq=%d proto=%#x int=%d entries str=%d entries header-info=%d bytes unpadded", p.Flags, p.Seq, p.Proto, len(p.Int), len(p.Str), headerInfoSize(p))
}

func checkDecoded(c *sim.Ctx, site string, dp ttheader.DecodeParam, p *ref.TTParams, hdrLen, payloadLen int) {
	if uint16(dp.Flags) != p.Flags || dp.SeqID != p.Seq || byte(dp.ProtocolID) != p.Proto {
		c.Fail("FRAME_ROUNDTRIP", site, sim.F{"field": "flags/seq/proto"}, "decoded flags=%#x seq=%d proto=%#x, encoded flags=%#x seq=%d proto=%#x", uint16(dp.Flags), dp.SeqID, byte(dp.ProtocolID), p.Flags, p.Seq, p.Proto)
	}
	if !mapsEqualInt(dp.IntInfo, p.Int) {
		c.Fail("FRAME_ROUNDTRIP", site, sim.F{"field": "int map"}, "decoded int map (%d entries) differs from the encoded one (%d entries)", len(dp.IntInfo), len(p.Int))
	}
	if !mapsEqualStr(dp.StrInfo, p.Str) {
		c.Fail("FRAME_ROUNDTRIP", site, sim.F{"field": "string map"}, "decoded string map (%d entries) differs from the encoded one (%d entries)", len(dp.StrInfo), len(p.Str))
	}
	if dp.HeaderLen != hdrLen {
		c.Fail("FRAME_LEN", site, sim.F{"which": "header"}, "decoded header length %d, the encoder wrote %d", dp.HeaderLen, hdrLen)
	}
	if dp.PayloadLen != payloadLen {
		c.Fail("FRAME_LEN", site, sim.F{"which": "payload"}, "decoded payload length %d, the payload has %d bytes", dp.PayloadLen, payloadLen)
	}
	scribbleDecoded(dp)
}

// scribbleDecoded does what a caller is entitled to do with maps it was handed: it writes
// into them. A decoder that hands out shared maps would then report these entries for
// other frames.
func scribbleDecoded(dp ttheader.DecodeParam) {
	if dp.IntInfo != nil {
		dp.IntInfo[0xBEEF] = "written by the previous caller"
	}
	if dp.StrInfo != nil {
		dp.StrInfo["written-by-the-previous-caller"] = "x"
	}
}

// c06Pipeline: a connection. 2..8 frames with payloads are encoded back to back into one
// buffered writer (flush points anywhere between frames), travel through one Source and are
// decoded from one buffered reader with Release between messages: every header and payload
// must be delimited exactly, or everything after it is out of step.
func c06Pipeline(c *sim.Ctx, cfg, st *sim.Stream) {
	ctx := context.Background()
	n := 2 + st.Choose(7)
	sink := sim.NewSink(c, "conn")
	w := bufiox.NewDefaultWriter(sink)
	type sent struct {
		p       *ref.TTParams
		payload []byte
		hdrLen  int
	}
	var frames []sent
	for k := 0; k < n; k++ {
		c.Ops++
		p := genTTParams(c, st)
		if headerInfoSize(p) > 20000 {
			p.Int, p.Str = nil, nil // keep connections small; big headers are covered frame by frame
		}
		ep := ttheader.EncodeParam{Flags: ttheader.HeaderFlags(p.Flags), SeqID: p.Seq, ProtocolID: ttheader.ProtocolID(p.Proto), IntInfo: p.Int, StrInfo: p.Str}
		payload := sim.KeyedBytes(uint64(c.Index)*977+uint64(k), 0, []int{0, 1, 17, 300, 4096, 9000}[st.Pick(2, 2, 3, 3, 1, 1)])
		before := w.WrittenLen()
		var tl []byte
		var err error
		c.GuardNoOOM("Encode", func() { tl, err = ttheader.Encode(ctx, ep, w) })
		if err != nil {
			// the property allows Encode to fail; whatever it wrote so far makes the rest of the
			// connection meaningless, so the run ends here without a verdict
			c.Count("probe.encode_failed")
			c.AbortRun("encode_failed_on_connection")
		}
		hdrLen := w.WrittenLen() - before
		binary.BigEndian.PutUint32(tl, uint32(hdrLen-4+len(payload)))
		if _, err := w.WriteBinary(payload); err != nil {
			c.Fail("WRITE_ERROR", "WriteBinary", sim.F{}, "%v", err)
		}
		frames = append(frames, sent{p, payload, hdrLen})
		if st.Chance(1, 3) {
			if err := w.Flush(); err != nil {
				c.Fail("WRITE_ERROR", "Flush", sim.F{}, "%v", err)
			}
		}
	}
	if err := w.Flush(); err != nil {
		c.Fail("WRITE_ERROR", "Flush", sim.F{}, "%v", err)
	}
	stream := sink.Got
	scfg := sim.RandomSourceCfg(cfg, len(stream))
	src := sim.NewSource(c, "conn", stream, scfg)
	dr := bufiox.NewDefaultReader(src)
	c.Tracef("pipeline of %d frames, %d bytes; %s", n, len(stream), scfg.String())
	c.Count("probe.pipelined_connection")
	for k, f := range frames {
		c.Ops++
		src.BeginCall(f.hdrLen)
		before := dr.ReadLen()
		var dp ttheader.DecodeParam
		var err error
		c.GuardNoOOM("Decode/DefaultReader", func() { dp, err = ttheader.Decode(ctx, dr) })
		site := "Decode/DefaultReader"
		if err != nil {
			c.Fail("FRAME_ROUNDTRIP", site, sim.F{"field": "rejected", "pipeline": true, "frame": k}, "frame %d of %d on the connection (%s) was rejected: %v", k, n, describeParams(f.p), err)
		}
		checkDecoded(c, site, dp, f.p, f.hdrLen, len(f.payload))
		if d := dr.ReadLen() - before; d != f.hdrLen {
			c.Fail("FRAME_LEN", site, sim.F{"which": "consumed", "pipeline": true}, "Decode consumed %d bytes, the header has %d", d, f.hdrLen)
		}
		var pl []byte
		src.BeginCall(len(f.payload))
		c.GuardNoOOM("Next/DefaultReader", func() { pl, err = dr.Next(dp.PayloadLen) })
		if err != nil || firstDiff(pl, f.payload) >= 0 {
			c.Fail("FRAME_LEN", site, sim.F{"which": "payload bytes", "pipeline": true}, "the payload of frame %d delimited by Decode is not the payload that was sent (err %v)", k, err)
		}
		c.Abs(0x420000 | uint32(k)<<8 | sizeBucket(f.hdrLen))
		if st.Chance(2, 3) {
			c.GuardNoOOM("Release/DefaultReader", func() { dr.Release(nil) })
		}
	}
	if _, err := dr.Next(1); err == nil {
		c.Fail("FRAME_LEN", "Decode/DefaultReader", sim.F{"which": "trailing", "pipeline": true}, "bytes remain on the connection after the last frame")
	}
	dr.Release(nil)
}

func runC06(c *sim.Ctx) {
	cfg := c.Cfg
	c.SetupAlloc(allocCfg(cfg, false))
	st := c.Tape.S("ops")
	if cfg.Chance(1, 4) {
		c06Pipeline(c, cfg, st)
		mcache.SimCheckPoison()
		return
	}
	if cfg.Chance(1, 8) {
		c06FaultyWriter(c, st)
		mcache.SimCheckPoison()
		return
	}
	n := 1 + cfg.Choose(3)
	ctx := context.Background()
	for k := 0; k < n; k++ {
		c.Ops++
		p := genTTParams(c, st)
		ep := ttheader.EncodeParam{Flags: ttheader.HeaderFlags(p.Flags), SeqID: p.Seq, ProtocolID: ttheader.ProtocolID(p.Proto), IntInfo: p.Int, StrInfo: p.Str}
		unpadded := headerInfoSize(p)
		padded := (unpadded + 3) / 4 * 4
		c.Count(fmt.Sprintf("probe.padding_residue_%d", (4-unpadded%4)%4))
		payload := sim.KeyedBytes(uint64(c.Index)*31+uint64(k), 0, []int{0, 1, 10, 100, 5000}[st.Pick(2, 2, 3, 2, 1)])
		c.Tracef("frame%d %s; payload %d bytes", k, describeParams(p), len(payload))
		var frame []byte
		hdrLen := 0
		mode := st.Pick(5, 2, 2)
		var encErr error
		switch mode {
		case 0, 2:
			// stream- or bytes-backed writer that already holds unflushed data
			pre := []int{0, 1, 100, 4000, 4082, 4083, 4090, 4096, 5000}[st.Choose(9)]
			var w bufiox.Writer
			var sink *sim.Sink
			var target []byte
			if mode == 0 {
				sink = sim.NewSink(c, fmt.Sprintf("w%d", k))
				w = bufiox.NewDefaultWriter(sink)
			} else {
				w = bufiox.NewBytesWriter(&target)
			}
			if pre > 0 {
				b, err := w.Malloc(pre)
				if err != nil {
					c.Fail("WRITE_ERROR", "Malloc", sim.F{}, "%v", err)
				}
				for i := range b {
					b[i] = 0xC3
				}
			}
			before := w.WrittenLen()
			mall := mcache.SimGetStats().Mallocs
			var totalLenField []byte
			c.GuardNoOOM("Encode", func() { totalLenField, encErr = ttheader.Encode(ctx, ep, w) })
			if encErr != nil {
				break
			}
			if mcache.SimGetStats().Mallocs != mall && pre > 0 {
				c.Count("probe.meta_before_growth")
				c.NonTriv = true
			}
			hdrLen = w.WrittenLen() - before
			if len(totalLenField) != 4 {
				c.Fail("FRAME_LAYOUT", "Encode", sim.F{"what": "total length slice"}, "Encode returned a total-length slice of %d bytes", len(totalLenField))
			}
			// the caller stores the total length and appends the payload
			binary.BigEndian.PutUint32(totalLenField, uint32(hdrLen-4+len(payload)))
			if st.Chance(1, 2) {
				if _, err := w.WriteBinary(payload); err != nil {
					c.Fail("WRITE_ERROR", "WriteBinary", sim.F{}, "%v", err)
				}
			} else {
				b, err := w.Malloc(len(payload))
				if err != nil {
					c.Fail("WRITE_ERROR", "Malloc", sim.F{}, "%v", err)
				}
				copy(b, payload)
			}
			var err error
			c.GuardNoOOM("Flush", func() { err = w.Flush() })
			if err != nil {
				c.Fail("WRITE_ERROR", "Flush", sim.F{}, "%v", err)
			}
			all := target
			if sink != nil {
				all = sink.Got
			}
			if len(all) != pre+hdrLen+len(payload) {
				c.Fail("FRAME_LEN", "Encode", sim.F{"which": "written"}, "the writer delivered %d bytes, expected %d (prefix) + %d (header) + %d (payload)", len(all), pre, hdrLen, len(payload))
			}
			for i := 0; i < pre; i++ {
				if all[i] != 0xC3 {
					c.Fail("FRAME_LAYOUT", "Encode", sim.F{"what": "prefix clobbered"}, "data written before the header was modified at offset %d", i)
				}
			}
			frame = all[pre:]
		case 1:
			c.GuardNoOOM("EncodeToBytes", func() { frame, encErr = ttheader.EncodeToBytes(ctx, ep) })
			if encErr != nil {
				break
			}
			hdrLen = len(frame)
			// total length + payload appended by the caller
			frame = append(append([]byte(nil), frame...), payload...)
			binary.BigEndian.PutUint32(frame, uint32(len(frame)-4))
		}
		if encErr != nil {
			c.Count("probe.encode_failed")
			if padded > 65536 {
				c.Count("probe.header_over_limit_rejected")
			}
			c.Tracef("  Encode failed: %v", encErr)
			c.Abs(0x400000 | sizeBucket(unpadded))
			continue
		}
		switch {
		case padded == 65536:
			c.Count("probe.header_exactly_65536")
		case padded >= 65000 && padded < 65536:
			c.Count("probe.header_just_under_limit")
		}
		// 1. independent layout parser
		f := ref.ParseTTFrame(frame)
		site := []string{"Encode/DefaultWriter", "EncodeToBytes", "Encode/BytesWriter"}[mode]
		if !f.OK {
			c.Fail("FRAME_LAYOUT", site, sim.F{"reason": f.Reason}, "the encoded frame (%s) does not follow the layout: %s (size field %#x, declared %d)", describeParams(p), f.Reason, f.SizeField, f.Declared)
		}
		if f.HeaderLen != hdrLen {
			c.Fail("FRAME_LAYOUT", site, sim.F{"reason": "size field"}, "size field says header length %d, the encoder wrote %d bytes", f.HeaderLen, hdrLen)
		}
		if f.Flags != p.Flags || f.Seq != p.Seq || f.Proto != p.Proto || !mapsEqualInt(f.Int, p.Int) || !mapsEqualStr(f.Str, p.Str) {
			c.Fail("FRAME_LAYOUT", site, sim.F{"reason": "content"}, "the frame's fields, read by the reference parser, differ from the parameters (%s)", describeParams(p))
		}
		_, hasTok := p.Str[ref.ACLTokenKey]
		nStrSec, nIntSec, nACL := 0, 0, 0
		for _, id := range f.SectionIDs {
			switch id {
			case ref.InfoStrKV:
				nStrSec++
			case ref.InfoIntKV:
				nIntSec++
			case ref.InfoACL:
				nACL++
			}
		}
		others := len(p.Str)
		if hasTok {
			others--
		}
		if f.DupKeys || (hasTok && nACL != 1) || (!hasTok && nACL != 0) || (others == 0 && nStrSec != 0) || (len(p.Int) == 0 && nIntSec != 0) || nStrSec > 1 || nIntSec > 1 {
			c.Fail("FRAME_LAYOUT", site, sim.F{"reason": "sections"}, "sections %v do not match the parameters (ACL token: %v, other string keys: %d, int keys: %d, duplicate keys: %v)", f.SectionIDs, hasTok, others, len(p.Int), f.DupKeys)
		}
		if f.PaddingTail > 3 || f.InteriorPadding {
			c.Fail("FRAME_LAYOUT", site, sim.F{"reason": "padding"}, "padding: %d trailing zero bytes, interior padding %v", f.PaddingTail, f.InteriorPadding)
		}
		if f.Declared != padded {
			c.Fail("FRAME_LAYOUT", site, sim.F{"reason": "declared size"}, "declared header-info size %d, the layout gives %d", f.Declared, padded)
		}
		if !ttheader.IsTTHeader(frame[:8]) {
			c.Fail("FRAME_LAYOUT", "IsTTHeader", sim.F{}, "IsTTHeader is false for an encoded frame")
		}
		if ttheader.IsStreaming(frame) != (p.Flags&2 != 0) {
			c.Fail("FRAME_LAYOUT", "IsStreaming", sim.F{}, "IsStreaming=%v for flags %#x", ttheader.IsStreaming(frame), p.Flags)
		}
		c.Abs(0x410000 | uint32(mode)<<12 | sizeBucket(unpadded))
		c.Ev(uint64(hdrLen), uint64(len(payload)))
		// 2. Decode through a fragmenting Source
		{
			scfg := sim.RandomSourceCfg(cfg, len(frame))
			src := sim.NewSource(c, fmt.Sprintf("r%d", k), frame, scfg)
			src.BeginCall(hdrLen)
			dr := bufiox.NewDefaultReader(src)
			var dp ttheader.DecodeParam
			var err error
			c.GuardNoOOM("Decode/DefaultReader", func() { dp, err = ttheader.Decode(ctx, dr) })
			if err != nil {
				c.Fail("FRAME_ROUNDTRIP", "Decode/DefaultReader", sim.F{"field": "rejected", "header_65536": padded == 65536}, "a frame produced by Encode (%s, header %d bytes) was rejected by Decode: %v", describeParams(p), hdrLen, err)
			}
			checkDecoded(c, "Decode/DefaultReader", dp, p, hdrLen, len(payload))
			if dr.ReadLen() != hdrLen {
				c.Fail("FRAME_LEN", "Decode/DefaultReader", sim.F{"which": "consumed"}, "Decode consumed %d bytes, the header has %d", dr.ReadLen(), hdrLen)
			}
			var pl []byte
			src.BeginCall(len(payload))
			c.GuardNoOOM("Next/DefaultReader", func() { pl, err = dr.Next(dp.PayloadLen) })
			if err != nil || firstDiff(pl, payload) >= 0 {
				c.Fail("FRAME_LEN", "Decode/DefaultReader", sim.F{"which": "payload bytes"}, "the payload delimited by Decode is not the payload that was sent (err %v)", err)
			}
			dr.Release(nil)
		}
		// 3. DecodeFromBytes
		{
			var dp ttheader.DecodeParam
			var err error
			flat := append([]byte(nil), frame...)
			c.GuardNoOOM("DecodeFromBytes", func() { dp, err = ttheader.DecodeFromBytes(ctx, flat) })
			if err != nil {
				c.Fail("FRAME_ROUNDTRIP", "DecodeFromBytes", sim.F{"field": "rejected", "header_65536": padded == 65536}, "a frame produced by Encode (%s, header %d bytes) was rejected: %v", describeParams(p), hdrLen, err)
			}
			checkDecoded(c, "DecodeFromBytes", dp, p, hdrLen, len(payload))
			if firstDiff(flat, frame) >= 0 {
				c.Fail("INPUT_MODIFIED", "DecodeFromBytes", sim.F{}, "the input was modified")
			}
		}
	}
	mcache.SimCheckPoison()
}
