package props

import (
	"github.com/bytedance/gopkg/lang/mcache"
	"github.com/cloudwego/gopkg/bufiox"
	"github.com/cloudwego/gopkg/protocol/thrift"

	"verif/harness/ref"
	"verif/harness/sim"
)

func init() {
	sim.Register(&sim.Prop{
		ID: "C16", Run: runC16, QuickRuns: 10000, ThoroughRuns: 100000,
		Rule:       "Each run: a history of 1..60 (thorough: up to 1500, enough to wrap the 1 MiB span several times) string/binary decodes with the buffer readers and with the stream reader over a simulated Source, lengths across the span allocator's classes (0, <128B, 128B..128KiB, larger); every decoded value is retained; after each batch tape-chosen disturbances: overwrite the input buffer, Release the stream reader so its buffer is recycled (poisoned / taken by the co-tenant), append to and write through returned byte slices. The same pre-generated history is executed with the span cache disabled and enabled and the result sequences are compared.",
		Components: realComponents,
		Probes:     []string{"len_0", "len_lt_128", "len_128_to_128k", "len_gt_128k", "input_overwritten", "reader_released", "append_to_result", "write_through_result", "span_enabled_runs", "repeated_value", "nested_decode_from_returned_slice"},
	})
}

type c16Op struct {
	stream bool // stream reader (else buffer reader)
	binary bool // ReadBinary (else ReadString)
	msg    bool // the value is the method name of a message header (ReadMessageBegin)
	val    []byte
}

type c16Kept struct {
	s     string
	b     []byte
	isStr bool
	want  []byte
	opIdx int
}

func runC16(c *sim.Ctx) {
	cfg := c.Cfg
	c.SetupAlloc(allocCfg(cfg, false))
	st := c.Tape.S("ops")
	maxOps := 60
	if c.Tier == "thorough" && cfg.Chance(1, 4) {
		maxOps = 1500
	}
	nops := 1 + cfg.Choose(maxOps)
	key := uint64(c.Seed)*31337 + uint64(c.Index)*977
	// pre-generate the history and the disturbance script so that both configurations run
	// exactly the same thing
	var ops []c16Op
	var script []int // per op: disturbance code
	sizeMix := cfg.Choose(3)
	fixedTiny := 0
	if cfg.Chance(1, 5) {
		fixedTiny = []int{16, 32, 64}[cfg.Choose(3)]
	}
	for i := 0; i < nops; i++ {
		var n int
		switch st.Pick(4, 8, 8, 1) {
		case 0:
			n = 0
			c.Count("probe.len_0")
		case 1:
			n = 1 + st.Choose(127)
			if fixedTiny > 0 {
				n = fixedTiny // every tiny value has the same power-of-two size: sums land exactly on block sizes
			}
			c.Count("probe.len_lt_128")
		case 2:
			switch sizeMix {
			case 0:
				n = 128 + st.Choose(400)
			case 1:
				n = 128 + st.Choose(9000)
			default:
				n = []int{128, 255, 256, 1000, 4096, 20000, 65536, 131071}[st.Pick(3, 3, 3, 3, 2, 1, 1, 1)]
			}
			c.Count("probe.len_128_to_128k")
		default:
			n = 131072 + st.Choose(3)*1000
			if c.Tier == "thorough" && nops < 20 && st.Chance(1, 40) {
				n = 16<<20 + 1 + st.Choose(3)*4096 // a blob past every allocator threshold
				c.Count("probe.len_gt_16MiB")
			}
			c.Count("probe.len_gt_128k")
		}
		op := c16Op{stream: st.Chance(1, 2), binary: st.Chance(1, 2), val: sim.KeyedBytes(key+uint64(i)*13, 0, n)}
		if i > 0 && st.Chance(1, 5) {
			// the same content twice in a row (a repeated method name, key or blob): the
			// second value must still be a copy of its own
			prev := ops[i-1]
			op.val = append([]byte(nil), prev.val...)
			op.stream = prev.stream
			op.binary = !prev.binary || st.Chance(1, 2)
			c.Count("probe.repeated_value")
		}
		if st.Chance(1, 6) {
			op.msg, op.binary = true, false
		}
		ops = append(ops, op)
		script = append(script, st.Pick(4, 3, 3, 2))
	}
	scfg := sim.RandomSourceCfg(cfg, 0)
	first := cfg.Choose(2) == 1
	var results [3][]uint64
	var held [][]c16Kept
	// the switch is flipped while values decoded under the previous setting are still held:
	// on, off, on (or off, on, off); everything ever returned is re-verified at the end
	for pass := 0; pass < 3; pass++ {
		span := (pass == 1) != first
		thrift.SetSpanCache(span)
		if span {
			c.Count("probe.span_enabled_runs")
		}
		c.Tracef("pass %d: span cache %v, %d decodes", pass, span, len(ops))
		var k []c16Kept
		results[pass], k = c16Pass(c, ops, script, scfg, span, pass)
		held = append(held, k)
	}
	thrift.SetSpanCache(false)
	// epilogue: the switch is flipped once more and a few *other* small and medium values are
	// decoded by both readers (a repeated history would overwrite recycled memory with the
	// very same bytes and hide it)
	thrift.SetSpanCache(true)
	{
		e := &ref.Encoder{}
		var vals [][]byte
		for i := 0; i < 24; i++ {
			v := sim.KeyedBytes(key^0xE9110+uint64(i), 3, []int{1, 7, 40, 100, 127, 128, 300}[st.Choose(7)])
			vals = append(vals, v)
			e.LenBytes(v)
		}
		in := append([]byte(nil), e.Buf...)
		off := 0
		for range vals {
			_, l, _ := thrift.Binary.ReadString(in[off:])
			off += l
		}
		src := sim.NewSource(c, "epilogue", e.Buf, sim.SourceCfg{StallAt: -1, ErrAt: len(e.Buf)})
		dr := bufiox.NewDefaultReader(src)
		br := thrift.NewBufferReader(dr)
		for range vals {
			src.BeginCall(8)
			if st.Chance(1, 2) {
				_, _ = br.ReadString()
			} else {
				_, _ = br.ReadBinary()
			}
		}
		br.Recycle()
		dr.Release(nil)
	}
	thrift.SetSpanCache(false)
	for pass, ks := range held {
		for i := range ks {
			k := &ks[i]
			got := k.b
			if k.isStr {
				got = []byte(k.s)
			}
			if d := firstDiff(got, k.want); d >= 0 {
				c.Fail("ALIASING", "decode", sim.F{"disturbance": "the span-cache switch was flipped and later decodes ran", "pass": pass}, "the %d-byte value decoded by op %d of pass %d changed at byte %d after the span-cache setting was switched and more values were decoded", len(k.want), k.opIdx, pass, d)
			}
		}
	}
	if len(results[0]) != len(results[2]) {
		c.Fail("SPAN_DIVERGENCE", "decode", sim.F{}, "the same history produced a different number of results when repeated")
	}
	for i := range results[0] {
		if results[0][i] != results[2][i] {
			c.Fail("SPAN_DIVERGENCE", "decode", sim.F{"repeat": true}, "result %d differs between two executions under the same span-cache setting", i)
		}
	}
	a, b := results[0], results[1]
	if len(a) != len(b) {
		c.Fail("SPAN_DIVERGENCE", "decode", sim.F{}, "the history produced %d results with one span-cache setting and %d with the other", len(a), len(b))
	}
	for i := range a {
		if a[i] != b[i] {
			c.Fail("SPAN_DIVERGENCE", "decode", sim.F{}, "result %d differs between span cache enabled and disabled", i)
		}
	}
	mcache.SimCheckPoison()
}

func fnv(b []byte, l int, err bool) uint64 {
	h := uint64(0xcbf29ce484222325)
	for _, x := range b {
		h = (h ^ uint64(x)) * 0x100000001b3
	}
	h = (h ^ uint64(l)) * 0x100000001b3
	if err {
		h ^= 0xdead
	}
	return h
}

func c16Pass(c *sim.Ctx, ops []c16Op, script []int, scfg sim.SourceCfg, span bool, pass int) (res []uint64, keptOut []c16Kept) {
	B := thrift.Binary
	var kept []c16Kept
	keptBytes := 0
	co := newCoTenant(c, true)
	verify := func(disturbance string, except int) {
		for i := range kept {
			k := &kept[i]
			if i == except {
				continue
			}
			var got []byte
			if k.isStr {
				got = []byte(k.s)
			} else {
				got = k.b
			}
			if d := firstDiff(got, k.want); d >= 0 {
				api := "ReadBinary"
				if k.isStr {
					api = "ReadString"
				}
				c.Fail("ALIASING", api, sim.F{"disturbance": disturbance, "span": span}, "the %d-byte value decoded by op %d changed at byte %d after: %s (span cache %v)", len(k.want), k.opIdx, d, disturbance, span)
			}
		}
	}
	keep := func(k c16Kept) int {
		kept = append(kept, k)
		keptBytes += len(k.want)
		for keptBytes > 300<<10 && len(kept) > 1 {
			keptBytes -= len(kept[0].want)
			kept = kept[1:]
		}
		return len(kept) - 1
	}
	i := 0
	for i < len(ops) {
		// a batch: consecutive ops with the same reader kind share one input
		j := i
		for j < len(ops) && ops[j].stream == ops[i].stream && j-i < 8 {
			j++
		}
		e := &ref.Encoder{}
		for _, op := range ops[i:j] {
			if op.msg {
				e.Bytes(ref.EncodeMessageBegin(op.val, 1, 7))
			} else {
				e.LenBytes(op.val)
			}
		}
		input := e.Buf
		var lastBin int = -1
		if !ops[i].stream {
			in := append([]byte(nil), input...)
			off := 0
			for k, op := range ops[i:j] {
				c.Ops++
				var l int
				var err error
				var s string
				var b []byte
				wantL := 4 + len(op.val)
				if op.msg {
					wantL += 8
					c.GuardNoOOM("ReadMessageBegin/Binary", func() { s, _, _, l, err = B.ReadMessageBegin(in[off:]) })
					b = []byte(s)
				} else if op.binary {
					c.GuardNoOOM("ReadBinary/Binary", func() { b, l, err = B.ReadBinary(in[off:]) })
				} else {
					c.GuardNoOOM("ReadString/Binary", func() { s, l, err = B.ReadString(in[off:]) })
					b = []byte(s)
				}
				if err != nil || firstDiff(b, op.val) >= 0 || l != wantL {
					c.Fail("VALUE_MISMATCH", "Read/Binary", sim.F{}, "decode of a %d-byte value failed: err=%v consumed=%d", len(op.val), err, l)
				}
				res = append(res, fnv(b, l, err != nil))
				if op.binary {
					lastBin = keep(c16Kept{b: b, want: op.val, opIdx: i + k})
					if len(op.val) >= 8 && script[i] != 0 {
						// nested payload: a returned byte slice is itself the input of another
						// decode (its first bytes are given a length prefix by the caller, who owns
						// them); the inner value must be a copy of its own
						innerLen := len(b) - 4
						if innerLen > 300 {
							innerLen = 300
						}
						b[0], b[1], b[2], b[3] = 0, 0, byte(innerLen>>8), byte(innerLen)
						kept[lastBin].want = append([]byte(nil), b...)
						var inner string
						var ierr error
						c.GuardNoOOM("ReadString/Binary", func() { inner, _, ierr = B.ReadString(b) })
						if ierr != nil || inner != string(b[4:4+innerLen]) {
							c.Fail("VALUE_MISMATCH", "Read/Binary", sim.F{}, "nested decode failed: %v", ierr)
						}
						keep(c16Kept{s: inner, isStr: true, want: append([]byte(nil), b[4:4+innerLen]...), opIdx: i + k})
						c.Count("probe.nested_decode_from_returned_slice")
					}
				} else {
					keep(c16Kept{s: s, isStr: true, want: op.val, opIdx: i + k})
				}
				off += l
			}
			// appending to a returned byte slice must not reach the input or another value
			if script[i] == 1 || script[i] == 3 {
				for q := range kept {
					k := &kept[q]
					if k.isStr || k.opIdx < i {
						continue
					}
					grown := append(k.b, 0xA1, 0xA2, 0xA3, 0xA4, 0xA5, 0xA6, 0xA7, 0xA8)
					_ = grown
					c.Count("probe.append_to_result")
				}
				if d := firstDiff(in, input); d >= 0 {
					c.Fail("ALIASING", "ReadBinary", sim.F{"disturbance": "append reached the input", "span": span}, "appending 8 bytes to a byte slice returned by ReadBinary changed the input buffer at offset %d (span cache %v)", d, span)
				}
				verify("8 bytes were appended to the byte slices decoded from this buffer", -1)
			}
			// disturbances on the input buffer
			for x := range in {
				in[x] = 0xEE
			}
			c.Count("probe.input_overwritten")
			verify("the input buffer was overwritten", -1)
		} else {
			cfgS := scfg
			cfgS.ErrAt = len(input)
			src := sim.NewSource(c, "in", input, cfgS)
			dr := bufiox.NewDefaultReader(src)
			br := thrift.NewBufferReader(dr)
			for k, op := range ops[i:j] {
				c.Ops++
				src.BeginCall(4 + len(op.val))
				var err error
				var s string
				var b []byte
				if op.msg {
					c.GuardNoOOM("ReadMessageBegin/BufferReader", func() { s, _, _, err = br.ReadMessageBegin() })
					b = []byte(s)
				} else if op.binary {
					c.GuardNoOOM("ReadBinary/BufferReader", func() { b, err = br.ReadBinary() })
				} else {
					c.GuardNoOOM("ReadString/BufferReader", func() { s, err = br.ReadString() })
					b = []byte(s)
				}
				if err != nil || firstDiff(b, op.val) >= 0 {
					c.Fail("VALUE_MISMATCH", "Read/BufferReader", sim.F{}, "decode of a %d-byte value failed: err=%v", len(op.val), err)
				}
				res = append(res, fnv(b, 0, err != nil))
				if op.binary {
					lastBin = keep(c16Kept{b: b, want: op.val, opIdx: i + k})
				} else {
					keep(c16Kept{s: s, isStr: true, want: op.val, opIdx: i + k})
				}
			}
			if script[i] == 1 || script[i] == 3 {
				for q := range kept {
					k := &kept[q]
					if k.isStr || k.opIdx < i {
						continue
					}
					grown := append(k.b, 0xA1, 0xA2, 0xA3, 0xA4, 0xA5, 0xA6, 0xA7, 0xA8)
					_ = grown
					c.Count("probe.append_to_result")
				}
				verify("8 bytes were appended to the byte slices decoded from this stream", -1)
			}
			br.Recycle()
			c.GuardNoOOM("Release/DefaultReader", func() { dr.Release(nil) })
			c.Count("probe.reader_released")
			verify("the stream reader was released (its buffer recycled)", -1)
			co.step()
			verify("the co-tenant reused the recycled buffer", -1)
		}
		// disturbances through the returned byte slices of this batch: their owner overwrites
		// them; nothing else (input, strings, other slices) may change
		_ = lastBin
		if script[i] == 2 || script[i] == 3 {
			for q := range kept {
				k := &kept[q]
				if k.isStr || k.opIdx < i || len(k.b) == 0 {
					continue
				}
				nw := make([]byte, len(k.b))
				for x := range k.b {
					k.b[x] ^= 0xFF
					nw[x] = k.b[x]
				}
				k.want = nw
				c.Count("probe.write_through_result")
				verify("a returned byte slice was overwritten by its owner", q)
			}
		}
		c.Abs(0x600000 | b2u(ops[i].stream)<<16 | uint32(j-i)<<8 | sizeBucket(len(input)))
		c.Ev(uint64(len(input)), uint64(j-i))
		i = j
	}
	verify("the end of the history", -1)
	co.finish()
	c.NonTriv = true
	// hand the most recent values (up to 64 KiB) to the caller, which holds them across passes
	n := 0
	for i := len(kept) - 1; i >= 0 && n < 64<<10; i-- {
		n += len(kept[i].want)
		keptOut = append(keptOut, kept[i])
	}
	return res, keptOut
}
