package props

import (
	"context"
	"fmt"
	"runtime"
	"sort"

	"github.com/bytedance/gopkg/lang/mcache"
	"github.com/cloudwego/gopkg/bufiox"
	"github.com/cloudwego/gopkg/container/strmap"
	"github.com/cloudwego/gopkg/protocol/thrift"
	"github.com/cloudwego/gopkg/protocol/thrift/base"
	"github.com/cloudwego/gopkg/protocol/ttheader"

	"verif/harness/ref"
	"verif/harness/sim"
)

func init() {
	sim.Register(&sim.Prop{
		ID: "C14", Run: runC14, QuickRuns: 15000, ThoroughRuns: 800000, RaceQuick: 2000, RaceThorough: 80000, FineQuick: 2000, FineThorough: 80000,
		Rule:        "Each run: 2..8 tasks, each a state machine running 1..5 create/use/release cycles of one kind of instance (BufferWriter+DefaultWriter->Sink, BufferReader+DefaultReader<-Source, the three skip decoders, TTHeader encode/decode stream- and bytes-backed, buffer decodes with the span cache on, FastMarshal/FastRead of the shipped structs, Get on a shared loaded StrMap and Str2Str) with payloads keyed by (task, cycle). Pass 1 executes every task alone and records its observable results; pass 2 re-executes the same tasks with exactly the same decisions under the seeded scheduler (switches at allocator calls, source reads, sink writes and step boundaries) and compares each task's results with its solo execution; the allocator ledger/fence watches buffer ownership. The same tapes run in the -race build, where the scheduler's hand-off is invisible to the race detector, so unsynchronised sharing is reported whatever the interleaving was.",
		Components:  realComponents,
		Probes:      []string{"cross_task_buffer_reuse", "switch_at_free", "switch_at_sink_write", "switch_at_source_read", "pool_flush_in_flight", "span_cache_on"},
		Assumptions: []string{"the happens-before monitor inherits the Go race detector's limits (4 shadow cells per word; sync.Pool's edges can hide a race between unrelated pool users)"},
	})
}

// setStmtHook installs the statement-level scheduling hook of the instrumented library copy;
// a no-op unless the harness is built with the "fine" tag (props/fine_on.go).
var setStmtHook = func(f func(kind int)) {}

// setHashSeed makes the string maps' hash seeds a function of the run (fine build only: the
// instrumented copy replaces the runtime-seeded hash by a simulator-seeded one).
var setHashSeed = func(base uint64) {}

// taskRec collects the observable results of one task (as hashes, in order).
type taskRec struct {
	results []uint64
}

func (r *taskRec) add(h uint64) { r.results = append(r.results, h) }

func hashBytes(b []byte) uint64 {
	h := uint64(0xcbf29ce484222325)
	for _, x := range b {
		h = (h ^ uint64(x)) * 0x100000001b3
	}
	return h ^ uint64(len(b))<<40
}

func hashStr(s string) uint64 { return hashBytes([]byte(s)) }

type sharedMaps struct {
	sm   *strmap.StrMap[int]
	s2s  *strmap.Str2Str
	ref  map[string]int
	refS map[string]string
	keys []string
}

var taskKindNames = []string{"writer", "reader", "skipdecoder", "readerskipdecoder", "bytesskipdecoder", "ttheader-stream", "ttheader-bytes", "span-decode", "fastcodec", "strmap-get", "bufiox-reader-retention", "bufiox-writer-regions"}

// taskBody returns the body of a task of the given kind. Everything it needs comes from its
// own context's tape; rec receives its observable results.
func taskBody(kind int, rec *taskRec, shared *sharedMaps) func(t *sim.Task) {
	return func(t *sim.Task) {
		c := t.C
		st := c.Tape.S("ops")
		cycles := 1 + c.Cfg.Choose(5)
		for cy := 0; cy < cycles; cy++ {
			c.Ops++
			key := uint64(c.Seed)*1315423911 + uint64(c.Index)*2654435761 + uint64(t.ID)*97 + uint64(cy)
			switch kind {
			case 0:
				taskWriter(t, st, rec)
			case 1:
				taskReader(t, st, rec)
			case 2, 3, 4:
				taskSkip(t, st, rec, kind)
			case 5, 6:
				taskTTHeader(t, st, rec, kind == 6, key)
			case 7:
				taskSpanDecode(t, st, rec, key)
			case 8:
				taskFastCodec(t, st, rec, key)
			case 9:
				taskStrMap(t, st, rec, shared)
			case 10:
				taskRetention(t, st, rec)
			case 11:
				taskRegions(t, st, rec)
			}
			c.Abs(0x700000 | uint32(kind)<<8 | uint32(cy))
			t.Yield()
			if st.Chance(1, 60) {
				runtime.GC()
				runtime.GC()
				c.Count("fault.fired.pool_flush")
				c.Count("probe.pool_flush_in_flight")
			}
		}
	}
}

func taskWriter(t *sim.Task, st *sim.Stream, rec *taskRec) {
	c := t.C
	items, enc := genRecord(c, st, 14)
	sink := sim.NewSink(c, "w")
	dw := bufiox.NewDefaultWriter(sink)
	bw := thrift.NewBufferWriter(dw)
	for _, it := range items {
		var err error
		c.GuardNoOOM("Write"+kindNames[it.kind]+"/BufferWriter", func() { err = writeItem(bw, it) })
		if err != nil {
			c.Fail("WRITE_ERROR", "Write/BufferWriter", sim.F{}, "%v", err)
		}
		if st.Chance(1, 5) {
			c.GuardNoOOM("Flush/DefaultWriter", func() { err = dw.Flush() })
			t.Yield()
		}
	}
	var err error
	c.GuardNoOOM("Flush/DefaultWriter", func() { err = dw.Flush() })
	if err != nil {
		c.Fail("WRITE_ERROR", "Flush/DefaultWriter", sim.F{}, "%v", err)
	}
	bw.Recycle()
	rec.add(hashBytes(sink.Got))
	if d := firstDiff(sink.Got, enc); d >= 0 {
		c.Fail("WIRE_MISMATCH", "Write/BufferWriter", sim.F{"foreign_bytes": true}, "task %d: the sink received %d bytes that differ from this task's record (%d bytes) at offset %d", t.ID, len(sink.Got), len(enc), d)
	}
}

func taskReader(t *sim.Task, st *sim.Stream, rec *taskRec) {
	c := t.C
	items, enc := genRecord(c, st, 14)
	scfg := sim.RandomSourceCfg(c.Cfg, len(enc))
	src := sim.NewSource(c, "r", enc, scfg)
	dr := bufiox.NewDefaultReader(src)
	br := thrift.NewBufferReader(dr)
	for i, it := range items {
		src.BeginCall(len(it.enc))
		var mm string
		var err error
		c.GuardNoOOM("Read"+kindNames[it.kind]+"/BufferReader", func() { mm, err = readItem(br, it) })
		rec.add(hashStr(mm) ^ uint64(br.Readn()))
		if err != nil || mm != "" {
			c.Fail("VALUE_MISMATCH", "Read/BufferReader", sim.F{}, "task %d item %d %s: err=%v %s", t.ID, i, it, err, mm)
		}
		if st.Chance(1, 5) {
			c.GuardNoOOM("Release/DefaultReader", func() { dr.Release(nil) })
			t.Yield()
		}
	}
	br.Recycle()
	c.GuardNoOOM("Release/DefaultReader", func() { dr.Release(nil) })
}

func taskSkip(t *sim.Task, st *sim.Stream, rec *taskRec, kind int) {
	c := t.C
	items, stream := genSkipStream(c, st, 20)
	switch kind {
	case 2:
		src := sim.NewSource(c, "s", stream, sim.RandomSourceCfg(c.Cfg, len(stream)))
		r := bufiox.NewDefaultReader(src)
		sd := thrift.NewSkipDecoder(r)
		for _, it := range items {
			src.BeginCall(len(it.enc))
			var buf []byte
			var err error
			if it.raw {
				c.GuardNoOOM("Next/DefaultReader", func() { buf, err = r.Next(len(it.enc)) })
			} else {
				c.GuardNoOOM("Next/SkipDecoder", func() { buf, err = sd.Next(thrift.TType(it.v.T)) })
			}
			rec.add(hashBytes(buf))
			if err != nil || firstDiff(buf, it.enc) >= 0 {
				c.Fail("SKIP_BYTES", "Next/SkipDecoder", sim.F{}, "task %d: wrong bytes for the item at offset %d (err %v)", t.ID, it.off, err)
			}
			if st.Chance(1, 6) {
				sd.Release()
				c.GuardNoOOM("Release/DefaultReader", func() { r.Release(nil) })
				sd = thrift.NewSkipDecoder(r)
				t.Yield()
			}
		}
		sd.Release()
		c.GuardNoOOM("Release/DefaultReader", func() { r.Release(nil) })
	case 3:
		src := sim.NewSource(c, "s", stream, sim.RandomSourceCfg(c.Cfg, len(stream)))
		sd := thrift.NewReaderSkipDecoder(src)
		for _, it := range items {
			src.BeginCall(len(it.enc))
			var buf []byte
			var err error
			if it.raw {
				buf = make([]byte, len(it.enc))
				for n := 0; n < len(buf) && err == nil; {
					var k int
					k, err = src.Read(buf[n:])
					n += k
				}
				err = nil
			} else {
				c.GuardNoOOM("Next/ReaderSkipDecoder", func() { buf, err = sd.Next(thrift.TType(it.v.T)) })
			}
			rec.add(hashBytes(buf))
			if err != nil || firstDiff(buf, it.enc) >= 0 {
				c.Fail("SKIP_BYTES", "Next/ReaderSkipDecoder", sim.F{}, "task %d: wrong bytes for the item at offset %d (err %v)", t.ID, it.off, err)
			}
			t.Yield()
			// the result stays valid until the next Next/Release
			if !it.raw {
				var d int
				c.Guard("verify-retained/ReaderSkipDecoder", func() { d = firstDiff(buf, it.enc) })
				if d >= 0 {
					c.Fail("RETAINED_CHANGED", "Next/ReaderSkipDecoder", sim.F{}, "task %d: the decoder's result changed before its next Next (offset %d)", t.ID, d)
				}
			}
			if st.Chance(1, 6) {
				sd.Release()
				sd = thrift.NewReaderSkipDecoder(src)
			}
		}
		sd.Release()
	case 4:
		flat := append([]byte(nil), stream...)
		sd := thrift.NewBytesSkipDecoder(flat)
		for _, it := range items {
			if it.raw {
				sd.Release()
				sd = thrift.NewBytesSkipDecoder(flat[it.off+len(it.enc):])
				t.Yield()
				continue
			}
			var buf []byte
			var err error
			c.GuardNoOOM("Next/BytesSkipDecoder", func() { buf, err = sd.Next(thrift.TType(it.v.T)) })
			rec.add(hashBytes(buf))
			if err != nil || firstDiff(buf, it.enc) >= 0 {
				c.Fail("SKIP_BYTES", "Next/BytesSkipDecoder", sim.F{}, "task %d: wrong bytes for the item at offset %d (err %v)", t.ID, it.off, err)
			}
		}
		sd.Release()
	}
}

// equal-length entries: the sequence of allocation sizes must not depend on Go's map order
func genTTParamsEqualLen(st *sim.Stream, key uint64) *ref.TTParams {
	p := &ref.TTParams{Flags: uint16(st.Choose(65536)), Seq: int32(st.Uint64()), Proto: ref.AllowedProtocols[st.Choose(len(ref.AllowedProtocols))]}
	ni, ns := st.Choose(6), st.Choose(6)
	vl, kl := []int{3, 0, 17, 300, 2000}[st.Pick(4, 1, 3, 2, 1)], 2+st.Choose(6)
	if ni > 0 {
		p.Int = map[uint16]string{}
	}
	if ns > 0 {
		p.Str = map[string]string{}
	}
	for i := 0; i < ni; i++ {
		p.Int[uint16(i*7+int(key%5))] = string(sim.KeyedBytes(key+uint64(i), 0, vl))
	}
	for i := 0; i < ns; i++ {
		k := sim.KeyedBytes(key^0xabc+uint64(i)*131, 0, kl)
		k[0] = byte('a' + i) // distinct
		p.Str[string(k)] = string(sim.KeyedBytes(key+uint64(i)*17, 7, vl))
	}
	return p
}

func hashParams(flags uint16, seq int32, proto byte, im map[uint16]string, sm map[string]string, hl, pl int) uint64 {
	h := uint64(flags)<<32 ^ uint64(uint32(seq)) ^ uint64(proto)<<56 ^ uint64(hl)*31 ^ uint64(pl)*131071
	var ik []int
	for k := range im {
		ik = append(ik, int(k))
	}
	sort.Ints(ik)
	for _, k := range ik {
		h = (h ^ uint64(k) ^ hashStr(im[uint16(k)])) * 0x100000001b3
	}
	var sk []string
	for k := range sm {
		sk = append(sk, k)
	}
	sort.Strings(sk)
	for _, k := range sk {
		h = (h ^ hashStr(k) ^ hashStr(sm[k])*3) * 0x100000001b3
	}
	return h
}

func taskTTHeader(t *sim.Task, st *sim.Stream, rec *taskRec, bytesBacked bool, key uint64) {
	c := t.C
	ctx := context.Background()
	p := genTTParamsEqualLen(st, key)
	ep := ttheader.EncodeParam{Flags: ttheader.HeaderFlags(p.Flags), SeqID: p.Seq, ProtocolID: ttheader.ProtocolID(p.Proto), IntInfo: p.Int, StrInfo: p.Str}
	var frame []byte
	var err error
	if bytesBacked {
		c.GuardNoOOM("EncodeToBytes", func() { frame, err = ttheader.EncodeToBytes(ctx, ep) })
		if err == nil {
			frame[0], frame[1], frame[2], frame[3] = 0, 0, 0, byte(len(frame)-4) // the caller stores the total length
		}
	} else {
		sink := sim.NewSink(c, "w")
		dw := bufiox.NewDefaultWriter(sink)
		var tl []byte
		c.GuardNoOOM("Encode", func() { tl, err = ttheader.Encode(ctx, ep, dw) })
		if err == nil {
			tl[0], tl[1], tl[2], tl[3] = 0, 0, 0, 7 // the caller stores the total length
			c.GuardNoOOM("Flush/DefaultWriter", func() { err = dw.Flush() })
		}
		frame = sink.Got
	}
	if err != nil {
		c.Fail("FRAME_ROUNDTRIP", "Encode", sim.F{}, "task %d: encode failed: %v", t.ID, err)
	}
	f := ref.ParseTTFrame(frame)
	rec.add(hashParams(f.Flags, f.Seq, f.Proto, f.Int, f.Str, f.HeaderLen, 0) ^ uint64(len(frame)))
	t.Yield()
	var dp ttheader.DecodeParam
	if bytesBacked {
		c.GuardNoOOM("DecodeFromBytes", func() { dp, err = ttheader.DecodeFromBytes(ctx, frame) })
	} else {
		src := sim.NewSource(c, "r", frame, sim.RandomSourceCfg(c.Cfg, len(frame)))
		src.BeginCall(len(frame))
		dr := bufiox.NewDefaultReader(src)
		c.GuardNoOOM("Decode/DefaultReader", func() { dp, err = ttheader.Decode(ctx, dr) })
		c.GuardNoOOM("Release/DefaultReader", func() { dr.Release(nil) })
	}
	rec.add(hashParams(uint16(dp.Flags), dp.SeqID, byte(dp.ProtocolID), dp.IntInfo, dp.StrInfo, dp.HeaderLen, dp.PayloadLen))
	if err != nil || uint16(dp.Flags) != p.Flags || dp.SeqID != p.Seq || !mapsEqualInt(dp.IntInfo, p.Int) || !mapsEqualStr(dp.StrInfo, p.Str) || dp.HeaderLen != len(frame) {
		c.Fail("FRAME_ROUNDTRIP", "Decode", sim.F{"foreign_bytes": true}, "task %d: the header did not survive the round trip (err %v)", t.ID, err)
	}
}

func taskSpanDecode(t *sim.Task, st *sim.Stream, rec *taskRec, key uint64) {
	c := t.C
	B := thrift.Binary
	n := 1 + st.Choose(10)
	e := &ref.Encoder{}
	var vals [][]byte
	for i := 0; i < n; i++ {
		l := []int{5, 0, 127, 128, 300, 3000, 20000}[st.Pick(3, 1, 2, 2, 3, 2, 1)]
		v := sim.KeyedBytes(key+uint64(i)*7, 0, l)
		vals = append(vals, v)
		e.LenBytes(v)
	}
	in := e.Buf
	off := 0
	type kept struct {
		s string
		b []byte
	}
	var ks []kept
	for i, v := range vals {
		var l int
		var err error
		var k kept
		if st.Chance(1, 2) {
			c.GuardNoOOM("ReadString/Binary", func() { k.s, l, err = B.ReadString(in[off:]) })
			rec.add(hashStr(k.s))
		} else {
			c.GuardNoOOM("ReadBinary/Binary", func() { k.b, l, err = B.ReadBinary(in[off:]) })
			rec.add(hashBytes(k.b))
			k.s = "\x00bin"
		}
		if err != nil {
			c.Fail("VALUE_MISMATCH", "Read/Binary", sim.F{}, "task %d value %d: %v", t.ID, i, err)
		}
		ks = append(ks, k)
		off += l
		_ = v
		if st.Chance(1, 3) {
			t.Yield()
		}
	}
	t.Yield()
	for i, k := range ks {
		got := k.b
		if k.s != "\x00bin" {
			got = []byte(k.s)
		}
		if d := firstDiff(got, vals[i]); d >= 0 {
			c.Fail("VALUE_MISMATCH", "Read/Binary", sim.F{"foreign_bytes": true}, "task %d: decoded value %d (%d bytes) is wrong at byte %d (another task's bytes?)", t.ID, i, len(vals[i]), d)
		}
	}
}

func taskFastCodec(t *sim.Task, st *sim.Stream, rec *taskRec, key uint64) {
	c := t.C
	if st.Chance(1, 2) {
		ex := thrift.NewApplicationException(int32(st.Uint64()), string(sim.KeyedBytes(key, 0, st.Choose(300))))
		var b []byte
		c.GuardNoOOM("FastMarshal", func() { b = thrift.FastMarshal(ex) })
		rec.add(hashBytes(b))
		t.Yield()
		got := thrift.NewApplicationException(0, "")
		var err error
		c.GuardNoOOM("FastUnmarshal", func() { err = thrift.FastUnmarshal(b, got) })
		if err != nil || got.TypeID() != ex.TypeID() || got.Msg() != ex.Msg() {
			c.Fail("VALUE_MISMATCH", "FastCodec/ApplicationException", sim.F{"foreign_bytes": true}, "task %d: round trip failed (err %v)", t.ID, err)
		}
		return
	}
	b0 := base.NewBase()
	b0.LogID = string(sim.KeyedBytes(key, 1, st.Choose(40)))
	b0.Caller = string(sim.KeyedBytes(key, 2, st.Choose(40)))
	b0.Addr = string(sim.KeyedBytes(key, 3, st.Choose(5000)))
	ne := st.Choose(5)
	if ne > 0 {
		b0.Extra = map[string]string{}
		for i := 0; i < ne; i++ {
			k := sim.KeyedBytes(key+uint64(i), 9, 6)
			k[0] = byte('a' + i)
			b0.Extra[string(k)] = string(sim.KeyedBytes(key+uint64(i), 11, 9))
		}
	}
	var b []byte
	c.GuardNoOOM("FastMarshal", func() { b = thrift.FastMarshal(b0) })
	rec.add(uint64(len(b)))
	t.Yield()
	got := base.NewBase()
	var err error
	c.GuardNoOOM("FastUnmarshal", func() { err = thrift.FastUnmarshal(b, got) })
	rec.add(hashStr(got.LogID) ^ hashStr(got.Caller)*3 ^ hashStr(got.Addr)*5 ^ hashParams(0, 0, 0, nil, got.Extra, 0, 0))
	if err != nil || got.LogID != b0.LogID || got.Caller != b0.Caller || got.Addr != b0.Addr || !mapsEqualStr(got.Extra, b0.Extra) {
		c.Fail("VALUE_MISMATCH", "FastCodec/Base", sim.F{"foreign_bytes": true}, "task %d: round trip failed (err %v)", t.ID, err)
	}
}

// taskRetention: a bufiox reader history in which every Next/Peek slice is kept and
// re-verified after every later operation and yield until the next Release.
func taskRetention(t *sim.Task, st *sim.Stream, rec *taskRec) {
	c := t.C
	sc := newReaderScenario(c, true)
	m := sc.m
	weights := []int{4, 3, 1, 1, 1, 0}
	nops := 1 + st.Choose(25)
	for i := 0; i < nops; i++ {
		sc.step(st, weights)
		rec.add(uint64(m.pos)<<8 | uint64(len(m.kept)))
		m.verifyKeptQuick("after a later operation")
		t.Yield()
		m.verifyKeptQuick("after other tasks ran")
	}
	m.verifyKept("at the end of the cycle")
	sc.checkCaller("at the end of the cycle")
	m.Release()
}

// taskRegions: a bufiox writer history with late fills of open regions.
func taskRegions(t *sim.Task, st *sim.Stream, rec *taskRec) {
	c := t.C
	sc := newWriterScenario(c)
	m := sc.m
	weights := []int{4, 2, 3, 1, 0}
	nops := 1 + st.Choose(25)
	for i := 0; i < nops; i++ {
		if m.target != nil && m.epoch > 0 {
			break
		}
		sc.step(st, weights)
		rec.add(uint64(m.unflushed)<<8 | uint64(m.epoch))
		t.Yield()
		if m.failed {
			break
		}
	}
	if !m.failed && (m.target == nil || m.epoch == 0) {
		for _, it := range m.items {
			if it.reg != nil && it.reg.filled != nil {
				m.fill(it.reg, 0, len(it.reg.b))
			}
		}
		m.Flush()
	}
	m.checkPayloads("at the end of the cycle")
	// the sink bytes are not a result: regions the caller never filled legitimately carry
	// whatever the allocator left there, which differs between the two passes; their
	// correctness is judged by the region model inside Flush
}

func taskStrMap(t *sim.Task, st *sim.Stream, rec *taskRec, sh *sharedMaps) {
	c := t.C
	n := 5 + st.Choose(40)
	for i := 0; i < n; i++ {
		var k string
		if st.Chance(2, 3) {
			k = sh.keys[st.Choose(len(sh.keys))]
		} else {
			k = fmt.Sprintf("absent-%d", st.Choose(1000))
		}
		var v int
		var ok bool
		var s string
		var ok2 bool
		c.GuardNoOOM("Get/StrMap", func() { v, ok = sh.sm.Get(k) })
		c.GuardNoOOM("Get/Str2Str", func() { s, ok2 = sh.s2s.Get(k) })
		rec.add(uint64(v)*2 + uint64(b2u(ok)) + hashStr(s)*4 + uint64(b2u(ok2))*8)
		wv, wok := sh.ref[k]
		ws, wok2 := sh.refS[k]
		if v != wv || ok != wok || s != ws || ok2 != wok2 {
			c.Fail("VALUE_MISMATCH", "Get/StrMap", sim.F{}, "task %d: Get(%q) = (%d,%v)/(%q,%v), the Go map says (%d,%v)/(%q,%v)", t.ID, k, v, ok, s, ok2, wv, wok, ws, wok2)
		}
		if i%8 == 7 {
			t.Yield()
		}
	}
}

func runC14(c *sim.Ctx) {
	cfg := c.Cfg
	setHashSeed(uint64(c.Seed)*0x9E3779B97F4A7C15 + uint64(c.Index))
	a := sim.AllocCfg{Ceiling: 512 << 20}
	fenceW := 1
	if c.Tier == "thorough" {
		fenceW = 2
	}
	switch cfg.Pick(5, 4, fenceW) {
	case 0:
		a.Mode = mcache.ModeLedger
	case 1:
		a.Mode = mcache.ModeReal
	case 2:
		a.Mode = mcache.ModeFence
	}
	a.Reuse = cfg.Pick(3, 1, 2)
	c.SetupAlloc(a)
	span := cfg.Chance(1, 2)
	thrift.SetSpanCache(span)
	defer thrift.SetSpanCache(false)
	if span {
		c.Count("probe.span_cache_on")
	}
	ntasks := 2 + cfg.Choose(7)
	// shared read-only maps, loaded before any task starts
	sh := &sharedMaps{ref: map[string]int{}, refS: map[string]string{}}
	nk := 1 + cfg.Choose(200)
	// hot-contention profile: every task hammers the same two or three keys of the shared
	// maps (or the same pool), with a high switch rate: the situation in which a lock-free
	// cache or a lazily built table in the library would be overtaken mid-operation
	hot := cfg.Chance(1, 5)
	if hot {
		nk = 2 + cfg.Choose(2)
		c.Count("cfg.hot_contention_profile")
	}
	for i := 0; i < nk; i++ {
		k := string(sim.KeyedBytes(uint64(c.Index)*17+uint64(i), 0, cfg.Choose(24)))
		if _, dup := sh.ref[k]; dup {
			continue
		}
		sh.ref[k] = i * 3
		sh.refS[k] = fmt.Sprintf("v%d", i)
		sh.keys = append(sh.keys, k)
	}
	// loaded from slices in a fixed order: loading from a Go map would make the collision
	// chains (and with them the number of statement-level scheduling points inside Get) depend
	// on Go's random map iteration order
	var vi []int
	var vs []string
	for _, k := range sh.keys {
		vi = append(vi, sh.ref[k])
		vs = append(vs, sh.refS[k])
	}
	sh.sm = strmap.NewFromSlice(sh.keys, vi)
	sh.s2s = strmap.NewStr2StrFromSlice(sh.keys, vs)

	kinds := make([]int, ntasks)
	sameKind := cfg.Chance(1, 3) // many tasks of one kind contend for the same pool
	k0 := cfg.Choose(len(taskKindNames))
	bigValuesProfile = hot
	defer func() { bigValuesProfile = false }()
	if hot {
		// mostly the shared maps; otherwise one pooled kind contended by every task
		sameKind, k0 = true, []int{9, 9, 9, 2, 3, 4, 7, 0, 1, 10, 11, 10, 11}[cfg.Choose(13)]
		if ntasks < 3 {
			ntasks = 3
			kinds = make([]int, ntasks)
		}
	}
	for i := range kinds {
		if sameKind && hot && (k0 == 10 || k0 == 11) {
			kinds[i] = 10 + i%2 // buffered readers and writers contend for the same buffer class
		} else if sameKind {
			kinds[i] = k0
		} else {
			kinds[i] = cfg.Choose(len(taskKindNames))
		}
	}
	c.Tracef("cfg  %d tasks %v span=%v", ntasks, kinds, span)

	// pass 1: every task alone (the number of scheduling points it passes is the horizon for
	// priority-based scheduling in pass 2)
	var soloYields int64
	if sim.FineBuild {
		setStmtHook(func(int) { soloYields++ })
	}
	solo := make([]*taskRec, ntasks)
	tapes := make([]map[string][]uint32, ntasks)
	for i := 0; i < ntasks; i++ {
		solo[i] = &taskRec{}
		_, rec, viol := sim.RunSolo(c, i, taskKindNames[kinds[i]], taskBody(kinds[i], solo[i], sh))
		tapes[i] = rec
		if viol != nil {
			// the task misbehaves when used alone: not this property's business
			panic(&sim.Violation{Class: "SOLO_FAILURE", Site: viol.Site, Facts: sim.F{"inner": viol.Class}, Detail: "task " + taskKindNames[kinds[i]] + " fails when executed alone: " + viol.Detail})
		}
	}
	setStmtHook(nil)
	if !sim.FineBuild {
		soloYields = c.Events // every source read, sink write and step is an event
	}
	mcache.SimCheckPoison()
	c.Ev(0xC14)

	// pass 2: the same tasks, the same decisions, interleaved by the seeded scheduler
	s := sim.NewSched(c)
	s.SwitchDen = []int{4, 2, 8, 16}[cfg.Choose(4)]
	s.Coarse = sim.RaceBuild
	conc := make([]*taskRec, ntasks)
	for i := 0; i < ntasks; i++ {
		conc[i] = &taskRec{}
		s.SpawnTape(taskKindNames[kinds[i]], sim.NewReplayTape(tapes[i]), taskBody(kinds[i], conc[i], sh))
	}
	before := mcache.SimGetStats().CrossTaskReuse
	// a share of the runs uses priority-based scheduling with 1..3 preemption points placed
	// within the number of scheduling points the solo pass counted
	if cfg.Chance(2, 5) {
		depth := 1 + cfg.Pick(2, 4, 2)
		s.UsePCT(depth, soloYields+1)
		c.Count("cfg.scheduler.pct")
	}
	if sim.FineBuild {
		// statement-level scheduling points inside the library (instrumented copy)
		s.StmtDen = []int{32, 8, 64, 256}[cfg.Choose(4)]
		s.AtomicDen = s.StmtDen
		if hot {
			s.StmtDen = 2 + cfg.Choose(3)
			s.AtomicDen = s.StmtDen
			if cfg.Chance(1, 2) {
				// atomic-focused schedule: preempt mostly in front of sync/atomic operations and
				// let tasks run long stretches otherwise, so that one task stays parked inside a
				// load/store pair while another completes a whole claim
				s.StmtDen, s.AtomicDen = 64<<uint(cfg.Choose(3)), 2
				c.Count("cfg.scheduler.atomic_focus")
			}
		}
		setStmtHook(func(kind int) {
			if kind == 1 {
				s.Yield(s.Current(), sim.YAtomic)
			} else {
				s.Yield(s.Current(), sim.YStmt)
			}
		})
	}
	viol := s.Run()
	setStmtHook(nil)
	if mcache.SimGetStats().CrossTaskReuse > before {
		c.Count("probe.cross_task_buffer_reuse")
	}
	if viol != nil {
		if viol.Class == "PANIC" || isLedgerClass(viol.Class) {
			panic(viol)
		}
		panic(&sim.Violation{Class: "TASK_DIVERGED", Site: viol.Site, Facts: sim.F{"inner": viol.Class}, Detail: "only when interleaved with other tasks: " + viol.Detail})
	}
	for i := 0; i < ntasks; i++ {
		a, b := solo[i].results, conc[i].results
		if len(a) != len(b) {
			c.Fail("TASK_DIVERGED", taskKindNames[kinds[i]], sim.F{"inner": "result count"}, "task %d (%s) produced %d results alone and %d when interleaved", i, taskKindNames[kinds[i]], len(a), len(b))
		}
		for j := range a {
			if a[j] != b[j] {
				c.Fail("TASK_DIVERGED", taskKindNames[kinds[i]], sim.F{"inner": "result value"}, "task %d (%s): result %d differs between the solo and the interleaved execution", i, taskKindNames[kinds[i]], j)
			}
		}
	}
	mcache.SimCheckPoison()
}

func isLedgerClass(cl string) bool {
	switch cl {
	case "DOUBLE_FREE", "INTERIOR_FREE", "CALLER_MEM_FREED", "WRITE_AFTER_FREE", "ACCESS_AFTER_FREE", "GUARD_PAGE", "COTENANT_DAMAGED":
		return true
	}
	return false
}
