package props

import (
	"errors"

	"github.com/bytedance/gopkg/lang/mcache"
	"github.com/cloudwego/gopkg/bufiox"
	"github.com/cloudwego/gopkg/protocol/thrift"

	"verif/harness/ref"
	"verif/harness/sim"
)

func init() {
	sim.Register(&sim.Prop{
		ID: "C12", Run: runC12, QuickRuns: 200000, ThoroughRuns: 12000000,
		Rule:       "Each run: 1..6 exchanges between a writer peer (tape-chosen among the in-place, append and stream message-begin writers; method names empty..long with arbitrary bytes, any type 0..65535, any seq id) and a reader peer (buffer reader and stream reader) joined by the fault transport: per-exchange fragmentation, truncation at any cut point, corruption of the first word (version marker). Oracle: reference envelope codec on the delivered bytes; by-product: MarshalFastMsg/UnmarshalFastMsg round trip incl. the EXCEPTION branch.",
		Components: realComponents,
		Probes:     []string{"env.ok", "env.truncated", "env.bad_version", "exception_branch", "name_longer_than_buffer", "retry_after_failed_write", "name_of_a_megabyte", "second_header_on_same_reader", "exception_fields_swapped", "framed_prefix"},
	})
}

func protoTypeID(err error) (int32, bool) {
	var pe *thrift.ProtocolException
	if errors.As(err, &pe) {
		return pe.TypeId(), true
	}
	return 0, false
}

func runC12(c *sim.Ctx) {
	cfg := c.Cfg
	c.SetupAlloc(allocCfg(cfg, false))
	thrift.SetSpanCache(cfg.Chance(1, 2))
	defer thrift.SetSpanCache(false)
	st := c.Tape.S("ops")
	n := 1 + cfg.Choose(6)
	for k := 0; k < n; k++ {
		c.Ops++
		nameLen := []int{4, 0, 1, 20, 300, 4090, 5000, 20000}[st.Pick(6, 2, 2, 4, 2, 1, 1, 1)]
		if st.Chance(1, 400) {
			nameLen = []int{1 << 20, 1<<20 + 1, 3 << 20}[st.Choose(3)] // no size is special for a method name
			c.Count("probe.name_of_a_megabyte")
		}
		if nameLen > 0 && nameLen < 1<<20 && st.Chance(1, 2) {
			nameLen = st.Choose(nameLen + 1)
		}
		if nameLen > 4096 {
			c.Count("probe.name_longer_than_buffer")
		}
		name := make([]byte, nameLen)
		if nameLen > 600 {
			sim.FillKeyed(name, uint64(c.Index)*7+uint64(k), 0)
		}
		for i := 0; i < len(name) && nameLen <= 600; i++ {
			name[i] = st.Byte()
			if st.Chance(1, 2) {
				name[i] = 'A' + name[i]%26
			}
		}
		mtype := int32(st.Choose(65536))
		if st.Chance(1, 2) {
			mtype = int32(1 + st.Choose(4))
		}
		if st.Chance(1, 8) {
			mtype |= int32(st.Choose(0x7fff)) << 16 // bits above the 16-bit field must be masked off
		}
		seq := int32(ref.GenScalar(st, ref.TI32, &ref.GenOpts{}).Bits)
		want := ref.EncodeMessageBegin(name, mtype, seq)

		// writer peer
		var sent []byte
		B := thrift.Binary
		wk := st.Choose(3)
		site := []string{"WriteMessageBegin/Binary", "AppendMessageBegin/Binary", "WriteMessageBegin/BufferWriter"}[wk]
		switch wk {
		case 0:
			l := B.MessageBeginLength(string(name))
			buf := make([]byte, l+8)
			var nw int
			c.GuardNoOOM(site, func() { nw = B.WriteMessageBegin(buf, string(name), mtype, seq) })
			if nw != l {
				c.Fail("ENVELOPE_LENGTH", site, sim.F{}, "returned %d, MessageBeginLength says %d", nw, l)
			}
			sent = buf[:nw]
		case 1:
			prefix := []byte{1, 2, 3}
			var out []byte
			c.GuardNoOOM(site, func() { out = B.AppendMessageBegin(prefix, string(name), mtype, seq) })
			sent = out[3:]
		case 2:
			if st.Chance(1, 5) {
				// the production retry pattern: the first attempt goes to a connection that has
				// already failed (the write returns the sticky error), the pooled stream writer is
				// recycled, and the same header is written again on a fresh connection
				bad := sim.NewSink(c, "bad")
				bad.FailAt, bad.Err = 1, sim.ErrCustom
				bdw := bufiox.NewDefaultWriter(bad)
				if b, err := bdw.Malloc(1); err == nil {
					b[0] = 0
				}
				_ = bdw.Flush() // fails: the writer is now in its error state
				bbw := thrift.NewBufferWriter(bdw)
				var err error
				c.GuardNoOOM(site, func() { err = bbw.WriteMessageBegin(string(name), mtype, seq) })
				if err == nil {
					// the sticky-error clause is C05's; here only the retry matters
					c.Count("probe.write_on_failed_writer_returned_nil")
				}
				bbw.Recycle()
				c.Count("probe.retry_after_failed_write")
			}
			sink := sim.NewSink(c, "w")
			dw := bufiox.NewDefaultWriter(sink)
			if st.Chance(1, 2) {
				// the header is written after some unflushed data (buffer growth inside it)
				junk, _ := dw.Malloc(st.Choose(4200))
				for i := range junk {
					junk[i] = 0xEE
				}
				pre := len(junk)
				bw := thrift.NewBufferWriter(dw)
				var err error
				c.GuardNoOOM(site, func() { err = bw.WriteMessageBegin(string(name), mtype, seq) })
				bw.Recycle()
				if err != nil || dw.Flush() != nil {
					c.Fail("ENVELOPE_WRITE", site, sim.F{}, "write failed: %v", err)
				}
				sent = sink.Got[pre:]
			} else {
				bw := thrift.NewBufferWriter(dw)
				var err error
				c.GuardNoOOM(site, func() { err = bw.WriteMessageBegin(string(name), mtype, seq) })
				bw.Recycle()
				if err != nil || dw.Flush() != nil {
					c.Fail("ENVELOPE_WRITE", site, sim.F{}, "write failed: %v", err)
				}
				sent = sink.Got
			}
		}
		if d := firstDiff(sent, want); d >= 0 {
			c.Fail("ENVELOPE_WIRE", site, sim.F{"len_delta": len(sent) - len(want)}, "header for (name len %d, type %d, seq %d) differs from the reference encoding at offset %d", len(name), mtype, seq, d)
		}

		// transport
		d := append([]byte(nil), sent...)
		d = append(d, sim.KeyedBytes(uint64(c.Index), 0, st.Choose(9))...)
		desc := "intact"
		tmode := st.Pick(3, 3, 2, 2)
		if tmode == 3 {
			// both: a damaged version word in a header that is also cut short
			switch st.Choose(3) {
			case 0:
				d[0] = st.Byte()
			case 1:
				d[0], d[1] = 0, 0
			case 2:
				d[st.Choose(2)] ^= byte(1 << uint(st.Choose(8)))
			}
			cut := []int{4, 5, 6, 7, 8, 9, 3, 2}[st.Choose(8)]
			if cut > len(sent) {
				cut = len(sent)
			}
			d = d[:cut]
			desc = "first-word corruption + cut"
			c.Count("fault.fired.truncation")
			c.Count("fault.fired.corruption")
		}
		switch tmode {
		case 1:
			cut := st.Choose(len(sent) + 1)
			if st.Chance(1, 2) {
				cut = []int{0, 1, 3, 4, 5, 7, 8, 8 + len(name), 8 + len(name) + 3}[st.Choose(9)]
				if cut > len(sent) {
					cut = len(sent)
				}
			}
			d = d[:cut]
			desc = "cut"
			c.Count("fault.fired.truncation")
		case 2:
			switch st.Choose(4) {
			case 0:
				d[0] = st.Byte()
			case 1:
				d[1] = st.Byte()
			case 2:
				d[0], d[1] = 0, 0 // old non-strict header: name length first
			case 3:
				d[st.Choose(4)] ^= byte(1 << uint(st.Choose(8)))
			}
			desc = "first-word corruption"
			c.Count("fault.fired.corruption")
		}
		env := ref.ParseMessageBegin(d)
		c.Count("probe.env." + []string{"ok", "truncated", "bad_version", "negative"}[env.Kind])
		if env.Kind != ref.EnvOK {
			c.NonTriv = true
		}
		c.Tracef("exchange%d writer=%s name len %d type %d seq %d; transport: %s, %d bytes delivered => reference %d", k, site, len(name), mtype, seq, desc, len(d), env.Kind)
		c.Abs(uint32(env.Kind)<<16 | uint32(wk)<<12 | sizeBucket(len(d)))
		c.Ev(uint64(env.Kind), uint64(len(d)))

		// reader peer 1: buffer reader
		{
			var gn string
			var gt, gs int32
			var gl int
			var err error
			rs := "ReadMessageBegin/Binary"
			flat := append([]byte(nil), d...)
			c.GuardNoOOM(rs, func() { gn, gt, gs, gl, err = B.ReadMessageBegin(flat) })
			judgeEnvelope(c, rs, env, gn, gt, gs, gl, err)
		}
		// reader peer 2: stream reader over Source
		{
			// the header under test may be the second one on this reader instance: every header
			// is judged on its own, whatever the instance has seen before
			var lead []byte
			if st.Chance(1, 3) {
				lead = ref.EncodeMessageBegin([]byte("warmup"), 1, 1)
				c.Count("probe.second_header_on_same_reader")
			}
			stream := append(append([]byte(nil), lead...), d...)
			scfg := sim.RandomSourceCfg(cfg, len(stream))
			src := sim.NewSource(c, "r", stream, scfg)
			src.BeginCall(len(stream))
			dr := bufiox.NewDefaultReader(src)
			br := thrift.NewBufferReader(dr)
			var gn string
			var gt, gs int32
			var err error
			rs := "ReadMessageBegin/BufferReader"
			if lead != nil {
				c.GuardNoOOM(rs, func() { gn, gt, gs, err = br.ReadMessageBegin() })
				if err != nil || gn != "warmup" {
					c.Fail("ENVELOPE_REJECTED", rs, sim.F{"lead": true}, "the first header on the connection was not read back: %v", err)
				}
			}
			before := int(br.Readn())
			c.GuardNoOOM(rs, func() { gn, gt, gs, err = br.ReadMessageBegin() })
			consumed := int(br.Readn()) - before
			judgeEnvelope(c, rs, env, gn, gt, gs, consumed, err)
			br.Recycle()
			// the name must stay the same after the reader's buffer is released, compacted and
			// reused by the next message or by another user of the pool
			more := sim.KeyedBytes(uint64(c.Index)+99, 0, 64)
			_, _ = dr.Next(len(stream) - before - consumed)
			dr.Release(nil)
			co := mcache.Malloc(4096)
			for i := range co {
				co[i] = 0x5C
			}
			mcache.Free(co)
			_ = more
			if env.Kind == ref.EnvOK && err == nil && gn != string(env.Name) {
				c.Fail("ENVELOPE_MISMATCH", rs, sim.F{"after_release": true}, "the method name returned by the stream reader changed after the reader was released (now %q..., sent %q...)", trunc(gn, 16), trunc(string(env.Name), 16))
			}
		}
	}
	fastMsgByProduct(c, st)
	mcache.SimCheckPoison()
}

func judgeEnvelope(c *sim.Ctx, site string, env ref.Envelope, name string, typ, seq int32, l int, err error) {
	switch env.Kind {
	case ref.EnvOK:
		if err != nil {
			c.Fail("ENVELOPE_REJECTED", site, sim.F{}, "a complete strict-version header was rejected: %v", err)
		}
		if name != string(env.Name) || typ != env.Type || seq != env.Seq {
			c.Fail("ENVELOPE_MISMATCH", site, sim.F{"name": name != string(env.Name), "type": typ != env.Type, "seq": seq != env.Seq},
				"read (name len %d, type %d, seq %d), sent (name len %d, type %d, seq %d)", len(name), typ, seq, len(env.Name), env.Type, env.Seq)
		}
		if l != env.Len {
			c.Fail("ENVELOPE_LENGTH", site, sim.F{"delta": l - env.Len}, "consumed %d bytes, the header has %d", l, env.Len)
		}
	case ref.EnvBadVersion:
		if err == nil {
			c.Fail("ENVELOPE_VERSION", site, sim.F{"accepted": true}, "a header without the strict-version marker was accepted")
		}
		if id, ok := protoTypeID(err); !ok || id != 4 {
			c.Fail("ENVELOPE_VERSION", site, sim.F{"accepted": false}, "a header without the strict-version marker was rejected with %v (type id %d), not as bad-version", err, id)
		}
	default:
		if err == nil {
			c.Fail("ENVELOPE_TRUNCATED_ACCEPTED", site, sim.F{}, "a truncated header was accepted (consumed %d)", l)
		}
	}
}

// fastMsgByProduct: MarshalFastMsg / UnmarshalFastMsg round trip incl. the EXCEPTION branch.
// fastMsgHostile: buffers a peer could send that UnmarshalFastMsg must treat by the book:
// a length-prefixed ("framed") message has no strict-version marker in its first word, and
// an EXCEPTION struct may carry its fields in any order, with unknown fields in between.
func fastMsgHostile(c *sim.Ctx, st *sim.Stream) {
	name := ref.GenScalar(st, ref.TString, &ref.GenOpts{}).Bin
	if len(name) == 0 {
		name = []byte("m")
	}
	seq := int32(st.Choose(1 << 20))
	text := ref.GenScalar(st, ref.TString, &ref.GenOpts{}).Bin
	exType := int32(ref.GenScalar(st, ref.TI32, &ref.GenOpts{}).Bits)
	fields := []ref.Field{{ID: 1, V: ref.StringV(text)}, {ID: 2, V: ref.I32V(exType)}}
	if st.Chance(1, 2) {
		fields[0], fields[1] = fields[1], fields[0]
		c.Count("probe.exception_fields_swapped")
	}
	if st.Chance(1, 3) {
		extra := ref.Field{ID: int16(3 + st.Choose(20)), V: ref.GenScalar(st, []byte{ref.TI64, ref.TString, ref.TBool}[st.Choose(3)], &ref.GenOpts{})}
		k := st.Choose(len(fields) + 1)
		fields = append(fields[:k:k], append([]ref.Field{extra}, fields[k:]...)...)
	}
	msg := append(ref.EncodeMessageBegin(name, 3, seq), ref.Encode(&ref.Value{T: ref.TStruct, Fields: fields})...)
	dummy := thrift.NewApplicationException(0, "")
	var gm string
	var gs int32
	var err error
	c.GuardNoOOM("UnmarshalFastMsg", func() { gm, gs, err = thrift.UnmarshalFastMsg(msg, dummy) })
	var ae *thrift.ApplicationException
	if !errors.As(err, &ae) || ae == nil || gm != string(name) || gs != seq {
		c.Fail("FASTMSG", "UnmarshalFastMsg", sim.F{"exception": true, "peer_encoded": true}, "an EXCEPTION message encoded by a peer (fields in its own order) came back as method %q seq %d err %v", gm, gs, err)
	}
	if ae.TypeID() != exType || ae.Msg() != string(text) {
		c.Fail("FASTMSG", "UnmarshalFastMsg", sim.F{"exception": true, "peer_encoded": true}, "exception (%d, %d-byte text) came back as (%d, %d-byte text)", exType, len(text), ae.TypeID(), len(ae.Msg()))
	}
	// framed: u32 length in front of a complete message
	framed := make([]byte, 4, 4+len(msg))
	framed[0], framed[1], framed[2], framed[3] = byte(len(msg)>>24), byte(len(msg)>>16), byte(len(msg)>>8), byte(len(msg))
	framed = append(framed, msg...)
	if ref.ParseMessageBegin(framed).Kind == ref.EnvBadVersion {
		c.Count("probe.framed_prefix")
		c.GuardNoOOM("UnmarshalFastMsg", func() { _, _, err = thrift.UnmarshalFastMsg(framed, dummy) })
		if id, ok := protoTypeID(err); err == nil || !ok || id != 4 {
			c.Fail("ENVELOPE_VERSION", "UnmarshalFastMsg", sim.F{"accepted": err == nil, "framed": true}, "a length-prefixed message (first word %d, no strict-version marker) was not rejected as bad-version: %v", len(msg), err)
		}
		var l int
		c.GuardNoOOM("ReadMessageBegin/Binary", func() { _, _, _, l, err = thrift.Binary.ReadMessageBegin(framed) })
		if id, ok := protoTypeID(err); err == nil || !ok || id != 4 {
			c.Fail("ENVELOPE_VERSION", "ReadMessageBegin/Binary", sim.F{"accepted": err == nil, "framed": true}, "a length-prefixed header was not rejected as bad-version: %v (consumed %d)", err, l)
		}
	}
}

func fastMsgByProduct(c *sim.Ctx, st *sim.Stream) {
	fastMsgHostile(c, st)
	method := string(ref.GenScalar(st, ref.TString, &ref.GenOpts{}).Bin)
	seq := int32(ref.GenScalar(st, ref.TI32, &ref.GenOpts{}).Bits)
	msgText := string(ref.GenScalar(st, ref.TString, &ref.GenOpts{}).Bin)
	exType := int32(ref.GenScalar(st, ref.TI32, &ref.GenOpts{}).Bits)
	payload := thrift.NewApplicationException(exType, msgText)
	mt := []int32{1, 2, 4, 3}[st.Choose(4)]
	var b []byte
	var err error
	c.GuardNoOOM("MarshalFastMsg", func() { b, err = thrift.MarshalFastMsg(method, mt, seq, payload) })
	if method == "" {
		if err == nil {
			c.Fail("FASTMSG", "MarshalFastMsg", sim.F{}, "an empty method name was accepted")
		}
		return
	}
	if err != nil {
		c.Fail("FASTMSG", "MarshalFastMsg", sim.F{}, "marshal failed: %v", err)
	}
	got := thrift.NewApplicationException(0, "")
	var gm string
	var gs int32
	c.GuardNoOOM("UnmarshalFastMsg", func() { gm, gs, err = thrift.UnmarshalFastMsg(b, got) })
	if gm != method || gs != seq {
		c.Fail("FASTMSG", "UnmarshalFastMsg", sim.F{}, "method/seq (%q,%d) came back as (%q,%d)", method, seq, gm, gs)
	}
	if mt == 3 {
		c.Count("probe.exception_branch")
		var ae *thrift.ApplicationException
		if !errors.As(err, &ae) || ae == nil {
			c.Fail("FASTMSG", "UnmarshalFastMsg", sim.F{"exception": true}, "an EXCEPTION message was not returned as an application-exception error: %v", err)
		}
		if ae.TypeID() != exType || ae.Msg() != msgText {
			c.Fail("FASTMSG", "UnmarshalFastMsg", sim.F{"exception": true}, "exception (%d,%q) came back as (%d,%q)", exType, msgText, ae.TypeID(), ae.Msg())
		}
		if got.TypeID() != 0 || got.Msg() != "" {
			c.Fail("FASTMSG", "UnmarshalFastMsg", sim.F{"exception": true}, "an EXCEPTION message was decoded into the caller's struct")
		}
		return
	}
	if err != nil {
		c.Fail("FASTMSG", "UnmarshalFastMsg", sim.F{}, "unmarshal failed: %v", err)
	}
	if got.TypeID() != exType || got.Msg() != msgText {
		c.Fail("FASTMSG", "UnmarshalFastMsg", sim.F{}, "payload (%d,%q) came back as (%d,%q)", exType, msgText, got.TypeID(), got.Msg())
	}
}

func trunc(s string, n int) string {
	if len(s) > n {
		return s[:n]
	}
	return s
}
