//go:build fine

package props

import (
	"github.com/cloudwego/gopkg/simhook"

	"verif/harness/sim"
)

func init() {
	sim.FineBuild = true
	setStmtHook = func(f func(kind int)) { simhook.Fn = f }
	setHashSeed = func(base uint64) { simhook.SeedBase, simhook.SeedCounter = base, 0 }
}
