package props

import (
	"context"
	"fmt"

	"github.com/bytedance/gopkg/lang/mcache"
	"github.com/cloudwego/gopkg/bufiox"
	"github.com/cloudwego/gopkg/protocol/ttheader"

	"verif/harness/ref"
	"verif/harness/sim"
)

func init() {
	sim.Register(&sim.Prop{
		ID: "C10", Run: runC10, QuickRuns: 250000, ThoroughRuns: 8000000,
		Rule:       "Each run: 1..5 frames laid out by the reference builder from a section plan (sections in any order, repeated, interleaved padding, transform ids, any flags/seq/protocol id) pass through the fault transport - truncation at any cut point, corruption of 1..3 structural bytes with boundary values (magic, size field incl. 0/1/0x3fff/0x4000/0x4001/0x8000/0xffff, protocol id, transform count, info ids, counts, string lengths), splices (a frame section repeated or swapped) - and reach Decode through a fragmenting simulated Source and DecodeFromBytes. One-directional oracle: no panic or hang; consumption <= 14 + declared size and <= delivered bytes; success only if the independent parser's necessary conditions hold, and then header/payload lengths and both maps equal the reference's.",
		Components: realComponents,
		Probes:     []string{"ref.accepts", "ref.rejects", "size_field_ge_0x4001", "size_field_0x4000", "unknown_info_id", "duplicate_keys", "splice", "impl.accepts", "every_cut_point_enumerated"},
	})
}

func genTTPlan(st *sim.Stream) (plan []ref.TTSection, transforms []byte) {
	ns := []int{1, 0, 2, 3, 6}[st.Pick(4, 2, 3, 2, 1)]
	small := func() string { return genTTString(st, st.Chance(1, 60)) }
	if st.Chance(1, 60) {
		// a section with more than a thousand entries (still a few KiB of header)
		n := []int{1023, 1024, 1025, 1500, 3000}[st.Choose(5)]
		var s ref.TTSection
		if st.Chance(1, 2) {
			s.ID = ref.InfoIntKV
			for j := 0; j < n; j++ {
				s.IntKeys = append(s.IntKeys, uint16(j))
				s.IntVals = append(s.IntVals, string(rune('a'+j%26)))
			}
		} else {
			s.ID = ref.InfoStrKV
			for j := 0; j < n; j++ {
				s.StrKeys = append(s.StrKeys, fmt.Sprintf("k%d", j))
				s.StrVals = append(s.StrVals, "")
			}
		}
		return []ref.TTSection{s}, nil
	}
	for i := 0; i < ns; i++ {
		var s ref.TTSection
		switch st.Pick(4, 4, 2, 2, 1) {
		case 0:
			s.ID = ref.InfoStrKV
			n := []int{1, 0, 2, 5}[st.Choose(4)]
			for j := 0; j < n; j++ {
				s.StrKeys = append(s.StrKeys, small())
				s.StrVals = append(s.StrVals, small())
			}
		case 1:
			s.ID = ref.InfoIntKV
			n := []int{1, 0, 2, 5}[st.Choose(4)]
			for j := 0; j < n; j++ {
				s.IntKeys = append(s.IntKeys, uint16(st.Choose(40)))
				s.IntVals = append(s.IntVals, small())
			}
		case 2:
			s.ID = ref.InfoACL
			s.Token = small()
		case 3:
			s.ID = ref.InfoPadding
		default:
			s.ID = []byte{0x02, 0x0f, 0x12, 0x7f, 0x80, 0xff}[st.Choose(6)]
		}
		plan = append(plan, s)
	}
	if st.Chance(1, 5) {
		transforms = make([]byte, 1+st.Choose(4))
		for i := range transforms {
			transforms[i] = st.Byte()
		}
	}
	return
}

var sizeFieldAlphabet = []uint16{0, 1, 2, 0x3fff, 0x4000, 0x4001, 0x4002, 0x7fff, 0x8000, 0x8001, 0xc000, 0xffff}

func runC10(c *sim.Ctx) {
	cfg := c.Cfg
	c.SetupAlloc(allocCfg(cfg, false))
	st := c.Tape.S("ops")
	n := 1 + cfg.Choose(5)
	ctx := context.Background()
	for k := 0; k < n; k++ {
		c.Ops++
		plan, transforms := genTTPlan(st)
		proto := ref.AllowedProtocols[st.Choose(len(ref.AllowedProtocols))]
		if st.Chance(1, 8) {
			proto = st.Byte()
		}
		payload := sim.KeyedBytes(uint64(c.Index)*131+uint64(k), 0, []int{0, 3, 40, 300}[st.Choose(4)])
		frame, marks := ref.BuildTTFrame(uint16(st.Choose(65536)), int32(st.Uint64()), proto, transforms, plan, payload)
		d := append([]byte(nil), frame...)
		desc := ""
		// faults
		mode := st.Pick(2, 4, 5, 2, 2)
		if mode == 2 || mode == 3 {
			kk := 1 + st.Pick(5, 2, 1)
			for i := 0; i < kk; i++ {
				var structural []ref.TTMark
				for _, m := range marks {
					if m.Kind != ref.TMPayload && m.Kind != ref.TMSeq && m.Len > 0 {
						structural = append(structural, m)
					}
				}
				m := structural[st.Choose(len(structural))]
				switch m.Kind {
				case ref.TMSizeField:
					v := sizeFieldAlphabet[st.Choose(len(sizeFieldAlphabet))]
					if st.Chance(1, 4) {
						v = uint16(st.Choose(65536))
					}
					d[m.Off], d[m.Off+1] = byte(v>>8), byte(v)
					desc += fmt.Sprintf(" sizefield=%#x", v)
				case ref.TMMagic:
					d[m.Off+st.Choose(2)] ^= byte(1 << uint(st.Choose(8)))
					desc += " magic"
				case ref.TMProto, ref.TMTransforms, ref.TMInfoID:
					v := []byte{0, 1, 2, 3, 4, 0x10, 0x11, 0x12, 0x7f, 0x80, 0xff}[st.Choose(11)]
					d[m.Off] = v
					desc += fmt.Sprintf(" byte@%d=%#x", m.Off, v)
				case ref.TMCount, ref.TMStrLen, ref.TMIntKey, ref.TMFlags:
					v := []uint16{0, 1, 2, 0x7f, 0xff, 0x100, 0x7fff, 0x8000, 0xffff}[st.Choose(9)]
					if st.Chance(1, 3) {
						old := uint16(d[m.Off])<<8 | uint16(d[m.Off+1])
						v = old + uint16(st.Choose(3)) - 1
					}
					d[m.Off], d[m.Off+1] = byte(v>>8), byte(v)
					desc += fmt.Sprintf(" u16@%d=%#x", m.Off, v)
				case ref.TMTotalLen:
					if st.Chance(1, 2) {
						d[m.Off+st.Choose(4)] = st.Byte()
					} else {
						v := []uint32{0, 1, 9, 10, 13, 14, 0x7fffffff, 0x80000000, 0xfffffffb, 0xfffffffc, 0xfffffffd, 0xfffffffe, 0xffffffff, 0x3fffffff, 0x40000000}[st.Choose(15)]
						d[m.Off], d[m.Off+1], d[m.Off+2], d[m.Off+3] = byte(v>>24), byte(v>>16), byte(v>>8), byte(v)
					}
					desc += " totallen"
				}
			}
			c.Count("fault.fired.corruption")
		}
		if mode == 4 && len(d) > 20 {
			// splice: repeat or swap a region of the header info
			hi := 14 + (len(frame) - 14 - len(payload))
			a := 14 + st.Choose(hi-14)
			l := 1 + st.Choose(hi-a)
			seg := append([]byte(nil), d[a:a+l]...)
			if st.Chance(1, 2) {
				// repeat in place, overwriting what follows (length-preserving)
				copy(d[a+l:hi], seg)
			} else {
				b := 14 + st.Choose(hi-14)
				copy(d[b:hi], seg)
			}
			desc += fmt.Sprintf(" splice[%d:%d]", a, a+l)
			c.Count("fault.fired.splice")
			c.Count("probe.splice")
		}
		pre := append([]byte(nil), d...)
		baseDesc := desc
		if mode == 1 || mode == 3 {
			cut := st.Choose(len(d) + 1)
			if st.Chance(1, 2) && len(marks) > 0 {
				m := marks[st.Choose(len(marks))]
				cut = m.Off + st.Choose(m.Len+1)
			}
			if cut > len(d) {
				cut = len(d)
			}
			d = d[:cut]
			desc += fmt.Sprintf(" cut@%d/%d", cut, len(frame))
			c.Count("fault.fired.truncation")
		}
		if desc == "" {
			desc = " intact"
		}
		deliver := func(d []byte, desc string) {
			f := ref.ParseTTFrame(d)
			if f.OK {
				c.Count("probe.ref.accepts")
			} else {
				c.Count("probe.ref.rejects")
				c.NonTriv = true
			}
			if f.HaveMeta && f.SizeField >= 0x4001 {
				c.Count("probe.size_field_ge_0x4001")
			}
			if f.HaveMeta && f.SizeField == 0x4000 {
				c.Count("probe.size_field_0x4000")
			}
			if f.UnknownInfo {
				c.Count("probe.unknown_info_id")
			}
			if f.DupKeys {
				c.Count("probe.duplicate_keys")
			}
			c.Tracef("frame%d %d bytes (%d sections, %d transforms, proto %#x):%s => reference ok=%v (%s) declared=%d", k, len(frame), len(plan), len(transforms), proto, desc, f.OK, f.Reason, f.Declared)
			c.Abs(0x500000 | uint32(mode)<<16 | sizeBucket(len(d))<<4 | b2u(f.OK))
			c.Ev(uint64(len(d)), uint64(b2u(f.OK)))

			judge := func(site string, dp ttheader.DecodeParam, err error, consumed int, known bool) {
				facts := sim.F{"ref_ok": f.OK, "reason": f.Reason, "size_field_ge_0x4001": f.HaveMeta && f.SizeField >= 0x4001}
				if known {
					if consumed > len(d) {
						c.Fail("OVER_CONSUMED", site, facts, "consumed %d bytes of a %d-byte input;%s", consumed, len(d), desc)
					}
					if f.HaveMeta && consumed > 14+f.Declared {
						c.Fail("OVER_CONSUMED", site, facts, "consumed %d bytes, more than 14 + declared header size %d;%s", consumed, f.Declared, desc)
					}
				}
				if err != nil {
					return
				}
				defer scribbleDecoded(dp)
				c.Count("probe.impl.accepts")
				if !f.OK && !f.UnknownInfo {
					c.Fail("ACCEPTED_INVALID_FRAME", site, facts, "Decode succeeded although a necessary condition fails: %s (size field %#x, declared %d, %d bytes delivered);%s", f.Reason, f.SizeField, f.Declared, len(d), desc)
				}
				if dp.HeaderLen != f.HeaderLen {
					c.Fail("FRAME_LEN", site, facts, "header length %d, must be 14 + declared size = %d;%s", dp.HeaderLen, f.HeaderLen, desc)
				}
				if want := int(f.TotalLen) + 4 - f.HeaderLen; dp.PayloadLen != want {
					c.Fail("FRAME_LEN", site, facts, "payload length %d, must be total length + 4 - header length = %d;%s", dp.PayloadLen, want, desc)
				}
				if uint16(dp.Flags) != f.Flags || dp.SeqID != f.Seq || byte(dp.ProtocolID) != f.Proto {
					c.Fail("FRAME_FIELDS", site, facts, "flags/seq/protocol differ from the delivered frame;%s", desc)
				}
				if f.OK && !f.DupKeys {
					if !mapsEqualInt(dp.IntInfo, f.Int) || !mapsEqualStr(dp.StrInfo, f.Str) {
						c.Fail("FRAME_MAPS", site, facts, "decoded maps (int %d, str %d entries) differ from the info sections (int %d, str %d);%s", len(dp.IntInfo), len(dp.StrInfo), len(f.Int), len(f.Str), desc)
					}
				}
				if f.OK && f.DupKeys {
					// which occurrence of a repeated key wins is not specified; but the key set is, and
					// every value must be one that was encoded for its key
					bad := len(dp.IntInfo) != len(f.Int) || len(dp.StrInfo) != len(f.Str)
					for k, v := range dp.StrInfo {
						ok := false
						for _, w := range f.StrAll[k] {
							ok = ok || w == v
						}
						bad = bad || !ok
					}
					for k, v := range dp.IntInfo {
						ok := false
						for _, w := range f.IntAll[k] {
							ok = ok || w == v
						}
						bad = bad || !ok
					}
					if bad {
						facts["duplicate_keys"] = true
						c.Fail("FRAME_MAPS", site, facts, "decoded maps contain a key or value that no info section encodes (frame with repeated keys);%s", desc)
					}
				}
			}
			{
				// the frame may follow other bytes on the same connection, consumed by the
				// caller without a Release in between
				pre := 0
				if cfg.Chance(1, 2) {
					pre = 1 + cfg.Choose(40)
				}
				stream := append(sim.KeyedBytes(uint64(c.Index)+5, 0, pre), d...)
				scfg := sim.RandomSourceCfg(cfg, len(stream))
				src := sim.NewSource(c, fmt.Sprintf("r%d", k), stream, scfg)
				src.BeginCall(len(stream))
				dr := bufiox.NewDefaultReader(src)
				if pre > 0 {
					if _, err := dr.Next(pre); err != nil {
						c.Fail("READ_ERROR", "Next/DefaultReader", sim.F{}, "%v", err)
					}
				}
				var dp ttheader.DecodeParam
				var err error
				c.GuardNoOOM("Decode/DefaultReader", func() { dp, err = ttheader.Decode(ctx, dr) })
				judge("Decode/DefaultReader", dp, err, dr.ReadLen()-pre, true)
				dr.Release(nil)
			}
			{
				flat := append([]byte(nil), d...)
				var dp ttheader.DecodeParam
				var err error
				c.GuardNoOOM("DecodeFromBytes", func() { dp, err = ttheader.DecodeFromBytes(ctx, flat) })
				judge("DecodeFromBytes", dp, err, 0, false)
				if firstDiff(flat, d) >= 0 {
					c.Fail("INPUT_MODIFIED", "DecodeFromBytes", sim.F{}, "the input was modified")
				}
				if err == nil && f.OK {
					// the caller reuses its buffer: the decoded maps must not change with it
					snapI, snapS := map[uint16]string{}, map[string]string{}
					for k2, v2 := range dp.IntInfo {
						snapI[k2] = string(append([]byte(nil), v2...))
					}
					for k2, v2 := range dp.StrInfo {
						snapS[string(append([]byte(nil), k2...))] = string(append([]byte(nil), v2...))
					}
					for x := range flat {
						flat[x] = 'x'
					}
					if !mapsEqualInt(dp.IntInfo, snapI) || !mapsEqualStr(dp.StrInfo, snapS) {
						c.Fail("FRAME_MAPS", "DecodeFromBytes", sim.F{"after_input_reuse": true}, "the decoded maps changed when the caller overwrote its input buffer (a key or value aliases the input);%s", desc)
					}
				}
			}
		}
		deliver(d, desc)
		// fault enumeration over crash points: every cut point of this frame
		limit, den := 300, 40
		if c.Tier == "thorough" {
			limit, den = 2048, 10
		}
		if len(pre) <= limit && cfg.Chance(1, den) {
			c.Count("probe.every_cut_point_enumerated")
			for cut := 0; cut <= len(pre); cut++ {
				c.Count("fault.fired.truncation")
				deliver(pre[:cut], fmt.Sprintf("%s cut@%d/%d (enumerated)", baseDesc, cut, len(pre)))
			}
		}
	}
	mcache.SimCheckPoison()
}

func b2u(b bool) uint32 {
	if b {
		return 1
	}
	return 0
}
