package sim

import (
	"bufio"
	"bytes"
	"encoding/json"
	"flag"
	"fmt"
	"os"
	"os/exec"
	"path/filepath"
	"runtime"
	"sort"
	"strconv"
	"strings"
	"sync"
	"sync/atomic"
	"syscall"
	"time"
)

// workerSummary is what a worker reports at the end of its share of a batch.
type workerSummary struct {
	Runs       int64
	NonTrivial int64
	Events     int64
	Ops        int64
	Foreign    map[string]int64
	Counters   map[string]int64
	Sigs       []uint64 // distinct abstract-trace signatures of non-trivial runs
	AllSigs    int      // distinct signatures over all runs
	Ngrams     []uint64
	SchedSigs  []uint64
	Samples    [][]string
	Hashes     map[int]string // selftest only
	ReplayDiff []int          // selftest: runs whose in-process tape replay gave a different hash
}

type options struct {
	prop, tier     string
	seed           int64
	workers, runs  int
	replay         string
	worker         bool
	offset, stride int
	only           int
	out            string
	racebin        string
	finebin        string
	fine           bool
	selftest       bool
	evidenceDir    string
	replayDir      string
	knownFile      string
	tmpDir         string
	hashes         bool
	race           bool
	verify         bool
	maxWall        time.Duration
	shrinkBudget   time.Duration
	noShrink       bool
	selftestN      int
	alloc          string
	printTrace     bool
}

// Main is the entry point of cmd/simcheck.
func Main() {
	var o options
	flag.StringVar(&o.prop, "prop", "", "property id")
	flag.StringVar(&o.tier, "tier", "quick", "quick|thorough")
	flag.Int64Var(&o.seed, "seed", 1, "VERIF_SEED")
	flag.IntVar(&o.workers, "workers", 16, "worker processes")
	flag.IntVar(&o.runs, "runs", 0, "override number of runs")
	flag.StringVar(&o.replay, "replay", "", "replay file")
	flag.BoolVar(&o.worker, "worker", false, "internal: worker mode")
	flag.IntVar(&o.offset, "offset", 0, "internal")
	flag.IntVar(&o.stride, "stride", 1, "internal")
	flag.IntVar(&o.only, "only", -1, "internal: run a single index")
	flag.StringVar(&o.out, "out", "", "internal: worker summary file")
	flag.StringVar(&o.racebin, "racebin", "", "path of the -race build of this binary")
	flag.StringVar(&o.finebin, "finebin", "", "path of the statement-level-yield build of this binary")
	flag.BoolVar(&o.fine, "fine", false, "internal: this is the fine-grained share of the batch")
	flag.BoolVar(&o.selftest, "selftest", false, "determinism self-test")
	flag.IntVar(&o.selftestN, "selftest-n", 200, "runs per property in the self-test")
	flag.StringVar(&o.evidenceDir, "evidence", "/verif/evidence", "")
	flag.StringVar(&o.replayDir, "replays", "/verif/replays", "")
	flag.StringVar(&o.knownFile, "known", "/verif/known_findings.json", "")
	flag.StringVar(&o.tmpDir, "tmp", "/verif/build/tmp", "")
	flag.BoolVar(&o.hashes, "hashes", false, "internal: record per-run hashes and check in-process tape replay")
	flag.BoolVar(&o.race, "race", false, "internal: this is the race share of the batch")
	flag.BoolVar(&o.verify, "verify", false, "internal: verify a replay file silently")
	flag.DurationVar(&o.maxWall, "maxwall", 6*time.Hour, "safety net")
	flag.DurationVar(&o.shrinkBudget, "shrink", 0, "shrinking budget")
	flag.BoolVar(&o.noShrink, "noshrink", false, "")
	flag.StringVar(&o.alloc, "alloc", os.Getenv("VERIF_ALLOC"), "force allocator mode real|ledger|fence")
	flag.BoolVar(&o.printTrace, "trace", false, "print the trace when replaying")
	flag.Parse()
	if s := os.Getenv("VERIF_SEED"); s != "" && !o.worker {
		if v, err := strconv.ParseInt(s, 10, 64); err == nil {
			o.seed = v
		}
	}
	if t := os.Getenv("VERIF_TIER"); t != "" && !o.worker && o.tier == "" {
		o.tier = t
	}
	switch o.alloc {
	case "real":
		ForceAlloc = 0
	case "ledger":
		ForceAlloc = 1
	case "fence":
		ForceAlloc = 2
	}
	runtime.GOMAXPROCS(1)
	switch {
	case o.worker:
		os.Exit(workerMain(&o))
	case o.replay != "":
		os.Exit(replayMain(&o))
	case o.selftest:
		runtime.GOMAXPROCS(4)
		os.Exit(selftestMain(&o))
	default:
		runtime.GOMAXPROCS(4)
		os.Exit(parentMain(&o))
	}
}

func fatal2(format string, args ...interface{}) int {
	fmt.Fprintf(os.Stderr, "HARNESS-FAULT: "+format+"\n", args...)
	return 2
}

// runScale (env VERIF_RUN_SCALE, e.g. 0.25) scales every batch size; used only when seeded
// defects are evaluated against checks other than their target, never by registered commands.
var runScale = 1.0

func init() {
	if v := os.Getenv("VERIF_RUN_SCALE"); v != "" {
		if f, err := strconv.ParseFloat(v, 64); err == nil && f > 0 {
			runScale = f
		}
	}
}

func runsFor(p *Prop, tier string, race bool) int {
	return int(float64(runsFor1(p, tier, race))*runScale + 0.5)
}

func runsFor1(p *Prop, tier string, race bool) int {
	if FineBuild {
		if tier == "thorough" {
			return p.FineThorough
		}
		return p.FineQuick
	}
	if race {
		if tier == "thorough" {
			return p.RaceThorough
		}
		return p.RaceQuick
	}
	if tier == "thorough" {
		return p.ThoroughRuns
	}
	return p.QuickRuns
}

func buildName() string {
	if RaceBuild {
		return "race"
	}
	if FineBuild {
		return "fine"
	}
	return "normal"
}

// ---------------------------------------------------------------------------------------
// worker
// ---------------------------------------------------------------------------------------

func workerMain(o *options) int {
	if !RaceBuild {
		// real memory blow-ups must kill the worker quickly instead of the sandbox
		lim := syscall.Rlimit{Cur: 12 << 30, Max: 12 << 30}
		_ = syscall.Setrlimit(syscall.RLIMIT_AS, &lim)
	}
	p := Props[o.prop]
	if p == nil {
		return fatal2("unknown property %q", o.prop)
	}
	out := bufio.NewWriter(os.Stdout)
	sum := &workerSummary{Counters: map[string]int64{}, Foreign: map[string]int64{}}
	sigs := map[uint64]bool{}
	allSigs := map[uint64]bool{}
	ngr := map[uint64]bool{}
	schedSigs := map[uint64]bool{}
	if o.hashes {
		sum.Hashes = map[int]string{}
	}
	total := o.runs
	if total == 0 {
		total = runsFor(p, o.tier, o.race)
	}
	start, stride := o.offset, o.stride
	if o.only >= 0 {
		start, stride, total = o.only, 1, o.only+1
	}
	budget := o.shrinkBudget
	if budget == 0 {
		budget = 20 * time.Second
		if o.tier == "thorough" {
			budget = 90 * time.Second
		}
	}
	for i := start; i < total; i += stride {
		fmt.Fprintf(out, "B %d\n", i)
		out.Flush()
		wantSample := len(sum.Samples) < 2 && (i/stride)%97 == 3
		r := RunOne(p, o.seed, i, o.tier, nil, false, wantSample)
		sum.Runs++
		sum.Events += r.Events
		sum.Ops += r.Ops
		for k, v := range r.Counters {
			sum.Counters[k] += v
		}
		if len(allSigs) < 1_000_000 {
			allSigs[r.AbsSig] = true
		}
		if r.NonTriv {
			sum.NonTrivial++
			if len(sigs) < 1_000_000 {
				sigs[r.AbsSig] = true
			}
		}
		if r.SchedSig != 0 && len(schedSigs) < 1_000_000 {
			schedSigs[r.SchedSig] = true
		}
		if len(ngr) < 200_000 {
			r.ctx.ngrams(func(g uint64) { ngr[g] = true })
		}
		if wantSample && len(r.Sample) > 0 {
			sum.Samples = append(sum.Samples, append([]string{fmt.Sprintf("run %d (seed %d)", i, o.seed)}, r.Sample...))
		}
		if o.hashes {
			sum.Hashes[i] = fmt.Sprintf("%016x", r.Hash)
			r2 := RunOne(p, o.seed, i, o.tier, r.Tape, false, false)
			if r2.Hash != r.Hash || (r2.Viol == nil) != (r.Viol == nil) {
				sum.ReplayDiff = append(sum.ReplayDiff, i)
			}
		}
		if r.Viol != nil {
			if r.Viol.Foreign {
				sum.Foreign[r.Viol.Class]++
				continue
			}
			if o.hashes {
				continue
			}
			rf := &ReplayFile{Property: p.ID, Seed: o.seed, Run: i, Tier: o.tier, Build: buildName(), Alloc: o.alloc,
				Tape: r.Tape, Violation: r.Viol, OrigLen: tapeLen(r.Tape), ShareOffset: o.offset, ShareStride: o.stride}
			if !o.noShrink {
				best, steps := Shrink(p, o.seed, i, o.tier, r.Tape, r.Viol.Key(), budget)
				rf.Tape, rf.Shrink, rf.Minimised = best, steps, true
			}
			// Re-execute the final tape with tracing. Scenarios that hand Go maps to the library
			// (TTHeader info maps, Base.Extra) inherit Go's per-iteration random map order, which
			// the simulator cannot seed: such a violation may need several attempts to show again.
			reproduce := func(tape map[string][]uint32) *Result {
				for attempt := 0; attempt < 12; attempt++ {
					f := RunOne(p, o.seed, i, o.tier, tape, true, false)
					if f.Viol != nil && f.Viol.Key() == r.Viol.Key() {
						if attempt > 0 {
							rf.Note = fmt.Sprintf("needed %d attempts to reproduce in-process: the scenario depends on Go's unseedable map iteration order", attempt+1)
						}
						return f
					}
				}
				return nil
			}
			fin := reproduce(rf.Tape)
			if fin == nil {
				// the minimised tape must reproduce; fall back to the original
				rf.Tape, rf.Minimised = r.Tape, false
				fin = reproduce(rf.Tape)
			}
			if fin == nil {
				// The oracle saw a violation that its own tape does not show again in this
				// process: it depends on library state carried over from earlier runs (every run
				// resets the simulator and flushes the pools, but cannot reset package-level state
				// of the code under test). Report it; the parent verifies by re-executing this
				// worker's share of run indices in a fresh process.
				rf.Tape, rf.Minimised, rf.NeedsShare = r.Tape, false, true
				rf.ShareOffset, rf.ShareStride = o.offset, o.stride
				rf.TapeLen = tapeLen(r.Tape)
				rf.Violation = r.Viol
				rf.EventHash = fmt.Sprintf("%016x", r.Hash)
				rf.Note = "did not reproduce from its own tape in the same process: depends on library state that survives across runs; replay re-executes the worker's share (run indices share_offset, +share_stride, ... up to run) in a fresh process"
				path, err := WriteReplay(o.replayDir, rf)
				if err != nil {
					return fatal2("cannot write replay: %v", err)
				}
				fmt.Fprintf(out, "V %s\n", path)
				out.Flush()
				break
			}
			rf.Tape = fin.Tape
			rf.TapeLen = tapeLen(fin.Tape)
			rf.Violation = fin.Viol
			rf.Trace = fin.Trace
			rf.EventHash = fmt.Sprintf("%016x", fin.Hash)
			path, err := WriteReplay(o.replayDir, rf)
			if err != nil {
				return fatal2("cannot write replay: %v", err)
			}
			fmt.Fprintf(out, "V %s\n", path)
			out.Flush()
			break
		}
	}
	for s := range sigs {
		sum.Sigs = append(sum.Sigs, s)
	}
	sum.AllSigs = len(allSigs)
	for g := range schedSigs {
		sum.SchedSigs = append(sum.SchedSigs, g)
	}
	for g := range ngr {
		sum.Ngrams = append(sum.Ngrams, g)
	}
	if o.out != "" {
		b, _ := json.Marshal(sum)
		if err := os.WriteFile(o.out, b, 0o644); err != nil {
			return fatal2("cannot write summary: %v", err)
		}
	}
	fmt.Fprintf(out, "S %s\n", o.out)
	out.Flush()
	return 0
}

// ---------------------------------------------------------------------------------------
// replay
// ---------------------------------------------------------------------------------------

func replayMain(o *options) int {
	rf, err := ReadReplay(o.replay)
	if err != nil {
		return fatal2("cannot read replay file: %v", err)
	}
	p := Props[rf.Property]
	if p == nil {
		return fatal2("unknown property %q", rf.Property)
	}
	if rf.Build == "fine" && !FineBuild {
		if o.finebin == "" {
			return fatal2("replay needs the fine-grained build (-finebin)")
		}
		cmd := exec.Command(o.finebin, os.Args[1:]...)
		cmd.Stdout, cmd.Stderr = os.Stdout, os.Stderr
		if err := cmd.Run(); err != nil {
			if ee, ok := err.(*exec.ExitError); ok {
				return ee.ExitCode()
			}
			return 2
		}
		return 0
	}
	if rf.Build == "race" && !RaceBuild {
		if o.racebin == "" {
			return fatal2("replay needs the race build (-racebin)")
		}
		cmd := exec.Command(o.racebin, os.Args[1:]...)
		cmd.Stdout, cmd.Stderr = os.Stdout, os.Stderr
		cmd.Env = append(os.Environ(), "GORACE=halt_on_error=1 exitcode=66")
		if err := cmd.Run(); err != nil {
			if ee, ok := err.(*exec.ExitError); ok {
				if ee.ExitCode() == 66 || ee.ExitCode() == 1 {
					if ee.ExitCode() == 66 {
						fmt.Printf("VIOLATION property=%s replay=%s\n", rf.Property, o.replay)
					}
					return 1
				}
				return ee.ExitCode()
			}
			return 2
		}
		return 0
	}
	if rf.NeedsShare && rf.Tape != nil {
		os.MkdirAll(o.tmpDir, 0o755)
		self, _ := os.Executable()
		fmt.Printf("replay %s: %s; re-executing runs %d,%d,... up to %d of seed %d in a fresh process\n", o.replay, rf.Note, rf.ShareOffset, rf.ShareOffset+rf.ShareStride, rf.Run, rf.Seed)
		if verifyShare(self, o, rf) {
			fmt.Printf("violation: %s\n", rf.Violation.Error())
			fmt.Printf("VIOLATION property=%s replay=%s\n", rf.Property, o.replay)
			return 1
		}
		fmt.Printf("no violation of class %s at run %d on this tree\n", rf.Violation.Class, rf.Run)
		return 0
	}
	if rf.Tape == nil {
		// crash-class: regenerate from (seed, run), in a child process that may die
		oo := *o
		oo.prop, oo.tier, oo.seed, oo.alloc = rf.Property, rf.Tier, rf.Seed, rf.Alloc
		if oo.tier == "" {
			oo.tier = "quick"
		}
		os.MkdirAll(oo.tmpDir, 0o755)
		self, _ := os.Executable()
		var r *workerResult
		for attempt := 0; attempt < 3; attempt++ {
			if rf.ShareStride > 0 {
				oo.runs = rf.Run + 1
				r = launchWorker(self, &oo, RaceBuild, rf.ShareOffset, rf.ShareStride, -1)
			} else {
				r = launchWorker(self, &oo, RaceBuild, 0, 1, rf.Run)
			}
			if r.crashIdx >= 0 || rf.Violation.Class != "DATA_RACE" {
				break
			}
		}
		if r.fault != "" {
			return fatal2("%s", r.fault)
		}
		if r.crashIdx < 0 && len(r.viols) == 0 {
			fmt.Printf("replay %s: run %d of seed %d does not crash on this tree (recorded: %s %v)\n", o.replay, rf.Run, rf.Seed, rf.Violation.Class, rf.Violation.Facts)
			return 0
		}
		class, sig, funcs := stderrSignature(r.stderr)
		fmt.Printf("replay %s: %s in run %d: %s; repository functions: %s\n", o.replay, class, rf.Run, strings.Join(sig, " | "), strings.Join(funcs, ", "))
		fmt.Println(tail(r.stderr, 40))
		fmt.Printf("VIOLATION property=%s replay=%s\n", rf.Property, o.replay)
		return 1
	}
	switch rf.Alloc {
	case "real":
		ForceAlloc = 0
	case "ledger":
		ForceAlloc = 1
	case "fence":
		ForceAlloc = 2
	}
	r := RunOne(p, rf.Seed, rf.Run, rf.Tier, rf.Tape, true, false)
	for attempt := 0; attempt < 12 && (r.Viol == nil || r.Viol.Foreign); attempt++ {
		// Go's map iteration order is not seedable (see the note in the replay file)
		r = RunOne(p, rf.Seed, rf.Run, rf.Tier, rf.Tape, true, false)
	}
	if !o.verify {
		fmt.Printf("replay %s: property=%s seed=%d run=%d build=%s tape_len=%d\n", o.replay, rf.Property, rf.Seed, rf.Run, rf.Build, tapeLen(rf.Tape))
		if o.printTrace || true {
			for _, l := range r.Trace {
				fmt.Println("  | " + l)
			}
		}
	}
	if r.Viol == nil || r.Viol.Foreign {
		if !o.verify {
			fmt.Printf("no violation of %s on this tree (recorded: %s)\n", rf.Property, rf.Violation.Key())
		}
		return 0
	}
	same := rf.Violation != nil && r.Viol.Key() == rf.Violation.Key()
	hashSame := rf.EventHash == "" || rf.EventHash == fmt.Sprintf("%016x", r.Hash) || strings.Contains(rf.Note, "map iteration order")
	if o.verify {
		if same && hashSame {
			return 1
		}
		fmt.Printf("replay mismatch: recorded %s hash %s, got %s hash %016x\n", rf.Violation.Key(), rf.EventHash, r.Viol.Key(), r.Hash)
		return 3
	}
	fmt.Printf("violation: %s\n", r.Viol.Error())
	if !same {
		fmt.Printf("note: recorded violation was %s\n", rf.Violation.Key())
	}
	fmt.Printf("VIOLATION property=%s replay=%s\n", rf.Property, o.replay)
	return 1
}

// ---------------------------------------------------------------------------------------
// parent
// ---------------------------------------------------------------------------------------

type workerResult struct {
	hang     bool
	sum      *workerSummary
	viols    []string
	crashIdx int // -1 none
	stderr   string
	exit     int
	fault    string
}

func launchWorker(bin string, o *options, race bool, offset, stride int, only int, extra ...string) *workerResult {
	res := &workerResult{crashIdx: -1}
	outFile := filepath.Join(o.tmpDir, fmt.Sprintf("sum-%d-%s-%v-%d-%d-%d.json", os.Getpid(), o.prop, race, offset, stride, only))
	args := []string{"-worker", "-prop", o.prop, "-tier", o.tier, "-seed", fmt.Sprint(o.seed), "-offset", fmt.Sprint(offset),
		"-stride", fmt.Sprint(stride), "-out", outFile, "-replays", o.replayDir, "-only", fmt.Sprint(only)}
	if o.runs > 0 {
		args = append(args, "-runs", fmt.Sprint(o.runs))
	}
	if race {
		args = append(args, "-race")
	}
	if o.alloc != "" {
		args = append(args, "-alloc", o.alloc)
	}
	if o.shrinkBudget > 0 {
		args = append(args, "-shrink", o.shrinkBudget.String())
	}
	args = append(args, extra...)
	cmd := exec.Command(bin, args...)
	cmd.Env = append(os.Environ(), "GORACE=halt_on_error=1 exitcode=66", "GOMAXPROCS=1", "GOTRACEBACK=single")
	var stderr bytes.Buffer
	cmd.Stderr = &stderr
	stdout, err := cmd.StdoutPipe()
	if err != nil {
		res.fault = err.Error()
		return res
	}
	if err := cmd.Start(); err != nil {
		res.fault = err.Error()
		return res
	}
	timer := time.AfterFunc(o.maxWall, func() { cmd.Process.Kill(); res.fault = "watchdog: worker exceeded " + o.maxWall.String() })
	// per-run progress watchdog: a single run (including shrinking) that shows no progress for
	// hangTimeout is killed and handled like a crash of that run (class HANG, confirmed by
	// re-executing the run alone)
	var progress int64 = time.Now().UnixNano()
	hangTimeout := 5 * time.Minute
	if o.tier == "thorough" {
		hangTimeout = 10 * time.Minute
	}
	if v := os.Getenv("VERIF_HANG_TIMEOUT"); v != "" {
		if d, err := time.ParseDuration(v); err == nil {
			hangTimeout = d
		}
	}
	stopWatch := make(chan struct{})
	go func() {
		tk := time.NewTicker(5 * time.Second)
		defer tk.Stop()
		for {
			select {
			case <-stopWatch:
				return
			case <-tk.C:
				if time.Since(time.Unix(0, atomic.LoadInt64(&progress))) > hangTimeout {
					res.hang = true
					cmd.Process.Kill()
					return
				}
			}
		}
	}()
	defer close(stopWatch)
	last := -1
	done := false
	sc := bufio.NewScanner(stdout)
	sc.Buffer(make([]byte, 1<<20), 1<<20)
	for sc.Scan() {
		line := sc.Text()
		switch {
		case strings.HasPrefix(line, "B "):
			last, _ = strconv.Atoi(line[2:])
			atomic.StoreInt64(&progress, time.Now().UnixNano())
		case strings.HasPrefix(line, "V "):
			res.viols = append(res.viols, line[2:])
		case strings.HasPrefix(line, "S "):
			done = true
		case strings.HasPrefix(line, "X "):
			res.fault = line[2:]
		}
	}
	err = cmd.Wait()
	timer.Stop()
	res.stderr = stderr.String()
	if err != nil {
		if ee, ok := err.(*exec.ExitError); ok {
			res.exit = ee.ExitCode()
		} else {
			res.exit = -1
		}
	}
	if res.fault != "" {
		return res
	}
	if res.exit == 2 && strings.Contains(res.stderr, "HARNESS-FAULT") {
		// (a Go runtime fatal error also exits with status 2: that is a crash of the run in
		// progress, handled below)
		res.fault = "worker reported a harness fault: " + tail(res.stderr, 5)
		return res
	}
	if !done || res.exit != 0 {
		res.crashIdx = last
	}
	if b, err := os.ReadFile(outFile); err == nil {
		s := &workerSummary{}
		if json.Unmarshal(b, s) == nil {
			res.sum = s
		}
		os.Remove(outFile)
	}
	return res
}

func tail(s string, n int) string {
	lines := strings.Split(strings.TrimSpace(s), "\n")
	if len(lines) > n {
		lines = lines[len(lines)-n:]
	}
	return strings.Join(lines, " | ")
}

// stderrSignature extracts the headline and the repository frames of a Go crash / race report.
func stderrSignature(s string) (class string, sig []string, funcs []string) {
	class = "PROCESS_CRASH"
	if strings.Contains(s, "WARNING: DATA RACE") {
		class = "DATA_RACE"
	}
	seen := map[string]bool{}
	for _, l := range strings.Split(s, "\n") {
		t := strings.TrimSpace(l)
		if strings.HasPrefix(t, "fatal error:") || strings.HasPrefix(t, "panic:") || strings.HasPrefix(t, "runtime: goroutine stack exceeds") || strings.HasPrefix(t, "WARNING: DATA RACE") {
			if len(sig) < 6 {
				sig = append(sig, t)
			}
		}
		if i := strings.Index(t, "github.com/cloudwego/gopkg/"); i >= 0 && strings.HasSuffix(t, ")") && !strings.HasPrefix(t, "/") {
			fn := t[i+len("github.com/cloudwego/gopkg/"):]
			if j := strings.LastIndex(fn, "("); j > 0 {
				fn = fn[:j]
			}
			if k := strings.Index(fn, "[go.shape"); k > 0 {
				fn = fn[:k] + fn[strings.Index(fn, "]")+1:]
			}
			if !seen[fn] && len(funcs) < 8 {
				seen[fn] = true
				funcs = append(funcs, fn)
			}
		}
	}
	return
}

// verifyShare re-executes a worker's share of run indices up to rf.Run in a fresh process and
// reports whether the same class of violation shows at that run.
func verifyShare(bin string, o *options, rf *ReplayFile) bool {
	oo := *o
	oo.prop, oo.tier, oo.seed, oo.alloc = rf.Property, rf.Tier, rf.Seed, rf.Alloc
	oo.runs = rf.Run + 1
	oo.replayDir = filepath.Join(o.tmpDir, fmt.Sprintf("share-%d-%d", os.Getpid(), rf.Run))
	os.MkdirAll(oo.replayDir, 0o755)
	defer os.RemoveAll(oo.replayDir)
	oo.shrinkBudget = time.Second
	for attempt := 0; attempt < 3; attempt++ {
		r := launchWorker(bin, &oo, rf.Build == "race", rf.ShareOffset, rf.ShareStride, -1)
		for _, p := range r.viols {
			if got, err := ReadReplay(p); err == nil && got.Run == rf.Run && got.Violation != nil && got.Violation.Class == rf.Violation.Class {
				return true
			}
		}
	}
	return false
}

// harnessFrames extracts the task-level harness functions of a race report.
func harnessFrames(s string) (funcs []string) {
	seen := map[string]bool{}
	for _, l := range strings.Split(s, "\n") {
		t := strings.TrimSpace(l)
		if i := strings.Index(t, "verif/harness/props."); i >= 0 && strings.HasSuffix(t, ")") {
			fn := t[i+len("verif/harness/"):]
			if j := strings.LastIndex(fn, "("); j > 0 {
				fn = fn[:j]
			}
			if !seen[fn] && len(funcs) < 6 {
				seen[fn] = true
				funcs = append(funcs, fn)
			}
		}
	}
	if len(funcs) == 0 {
		funcs = []string{"(no symbolised frames)"}
	}
	return
}

type knownFinding struct {
	Property    string `json:"property"`
	Class       string `json:"class"`
	Site        string `json:"site"`
	Facts       F      `json:"facts,omitempty"`
	Status      string `json:"status"`
	Commit      string `json:"commit,omitempty"`
	Description string `json:"description"`
}

func loadKnown(path string) []knownFinding {
	b, err := os.ReadFile(path)
	if err != nil {
		return nil
	}
	var k struct {
		Findings []knownFinding `json:"findings"`
	}
	if json.Unmarshal(b, &k) != nil {
		return nil
	}
	return k.Findings
}

func matchKnown(known []knownFinding, v *Violation) *knownFinding {
	for i := range known {
		k := &known[i]
		if k.Status != "known" || k.Property != v.Property || k.Class != v.Class {
			continue
		}
		if k.Site != "" && k.Site != v.Site {
			continue
		}
		ok := true
		for fk, fv := range k.Facts {
			if fmt.Sprint(v.Facts[fk]) != fmt.Sprint(fv) {
				ok = false
			}
		}
		if ok {
			return k
		}
	}
	return nil
}

type batchAgg struct {
	runs, nonTriv, events, ops int64
	counters                   map[string]int64
	foreign                    map[string]int64
	sigs, ngrams, schedSigs    map[uint64]bool
	allSigs                    int
	samples                    [][]string
	viols                      []string
	crashes                    []crashInfo
	faults                     []string
}

type crashInfo struct {
	idx            int
	fine           bool
	race           bool
	stderr         string
	offset, stride int
}

func (a *batchAgg) add(s *workerSummary) {
	if s == nil {
		return
	}
	a.runs += s.Runs
	a.nonTriv += s.NonTrivial
	a.events += s.Events
	a.ops += s.Ops
	for k, v := range s.Counters {
		a.counters[k] += v
	}
	for k, v := range s.Foreign {
		a.foreign[k] += v
	}
	for _, g := range s.Sigs {
		a.sigs[g] = true
	}
	for _, g := range s.Ngrams {
		a.ngrams[g] = true
	}
	for _, g := range s.SchedSigs {
		a.schedSigs[g] = true
	}
	a.allSigs += s.AllSigs
	for _, sm := range s.Samples {
		if len(a.samples) < 3 {
			a.samples = append(a.samples, sm)
		}
	}
}

func runShare(bin string, o *options, race bool, agg *batchAgg, mu *sync.Mutex) {
	var wg sync.WaitGroup
	for w := 0; w < o.workers; w++ {
		w := w
		wg.Add(1)
		go func() {
			defer wg.Done()
			offset := w
			for restarts := 0; restarts < 4; restarts++ {
				r := launchWorker(bin, o, race, offset, o.workers, -1)
				mu.Lock()
				agg.add(r.sum)
				agg.viols = append(agg.viols, r.viols...)
				if r.fault != "" {
					agg.faults = append(agg.faults, r.fault)
				}
				mu.Unlock()
				if r.fault != "" || r.crashIdx < 0 {
					return
				}
				mu.Lock()
				agg.crashes = append(agg.crashes, crashInfo{idx: r.crashIdx, race: race, stderr: r.stderr, offset: offset, stride: o.workers})
				mu.Unlock()
				// continue after the crashed run
				offset = r.crashIdx + o.workers
			}
		}()
	}
	wg.Wait()
}

func parentMain(o *options) int {
	p := Props[o.prop]
	if p == nil {
		return fatal2("unknown property %q", o.prop)
	}
	if o.tier != "quick" && o.tier != "thorough" {
		return fatal2("unknown tier %q", o.tier)
	}
	os.MkdirAll(o.tmpDir, 0o755)
	os.MkdirAll(o.evidenceDir, 0o755)
	self, _ := os.Executable()
	t0 := time.Now()
	// replay files of earlier invocations of this check are stale
	if old, err := filepath.Glob(filepath.Join(o.replayDir, o.prop+"-*.json")); err == nil {
		for _, f := range old {
			os.Remove(f)
		}
	}
	fmt.Printf("VERIF_SEED=%d property=%s tier=%s workers=%d\n", o.seed, o.prop, o.tier, o.workers)
	agg := &batchAgg{counters: map[string]int64{}, foreign: map[string]int64{}, sigs: map[uint64]bool{}, ngrams: map[uint64]bool{}, schedSigs: map[uint64]bool{}}
	var mu sync.Mutex
	runShare(self, o, false, agg, &mu)
	raceRuns := runsFor(p, o.tier, true)
	var raceAgg *batchAgg
	if raceRuns > 0 && o.runs == 0 {
		if o.racebin == "" {
			return fatal2("property %s needs the race build (-racebin)", o.prop)
		}
		raceAgg = &batchAgg{counters: map[string]int64{}, foreign: map[string]int64{}, sigs: map[uint64]bool{}, ngrams: map[uint64]bool{}, schedSigs: map[uint64]bool{}}
		runShare(o.racebin, o, true, raceAgg, &mu)
		agg.viols = append(agg.viols, raceAgg.viols...)
		agg.crashes = append(agg.crashes, raceAgg.crashes...)
		agg.faults = append(agg.faults, raceAgg.faults...)
	}
	// the fine-grained share: the same property in the build whose library copy yields to the
	// scheduler before every statement
	var fineAgg *batchAgg
	fineRuns := p.FineQuick
	if o.tier == "thorough" {
		fineRuns = p.FineThorough
	}
	fineRuns = int(float64(fineRuns) * runScale)
	if fineRuns > 0 && o.runs == 0 && o.finebin != "" {
		if _, err := os.Stat(o.finebin); err == nil {
			fineAgg = &batchAgg{counters: map[string]int64{}, foreign: map[string]int64{}, sigs: map[uint64]bool{}, ngrams: map[uint64]bool{}, schedSigs: map[uint64]bool{}}
			runShare(o.finebin, o, false, fineAgg, &mu)
			agg.viols = append(agg.viols, fineAgg.viols...)
			for i := range fineAgg.crashes {
				fineAgg.crashes[i].fine = true
			}
			agg.crashes = append(agg.crashes, fineAgg.crashes...)
			agg.faults = append(agg.faults, fineAgg.faults...)
			for g := range fineAgg.schedSigs {
				agg.schedSigs[g] = true
			}
		}
	}
	if len(agg.faults) > 0 {
		return fatal2("%s", strings.Join(agg.faults, "; "))
	}
	known := loadKnown(o.knownFile)
	exit := 0
	reported := map[string]bool{}
	nViol := 0
	knownHit := map[string]bool{}
	// 1. violations with tapes: verify each in a fresh process
	sort.Strings(agg.viols)
	for _, path := range agg.viols {
		rf, err := ReadReplay(path)
		if err != nil {
			return fatal2("cannot read %s: %v", path, err)
		}
		key := rf.Violation.Key()
		if reported[key] || (rf.NeedsShare && reported[rf.Violation.Class+"@share"]) {
			os.Remove(path)
			continue
		}
		bin := self
		if rf.Build == "race" {
			bin = o.racebin
		}
		if rf.Build == "fine" {
			bin = o.finebin
		}
		if rf.NeedsShare {
			if !verifyShare(bin, o, rf) {
				return fatal2("violation %s of run %d was seen once but neither its tape nor the worker's share reproduces it", key, rf.Run)
			}
			reported[rf.Violation.Class+"@share"] = true
			if k := matchKnown(known, rf.Violation); k != nil {
				fmt.Printf("KNOWN-FINDING: property=%s %s at %s: %s\n", o.prop, rf.Violation.Class, rf.Violation.Site, k.Description)
				os.Remove(path)
				continue
			}
			nViol++
			fmt.Printf("violation: %s\n", rf.Violation.Error())
			fmt.Printf("VIOLATION property=%s replay=%s\n", o.prop, path)
			exit = 1
			continue
		}
		var outb []byte
		code := 0
		for attempt := 0; attempt < 6 && code != 1; attempt++ {
			cmd := exec.Command(bin, "-replay", path, "-verify")
			cmd.Env = append(os.Environ(), "GOMAXPROCS=1")
			var err error
			outb, err = cmd.CombinedOutput()
			code = 0
			if ee, ok := err.(*exec.ExitError); ok {
				code = ee.ExitCode()
			}
		}
		if code != 1 {
			// not reproducible from a clean process state: does it depend on library state
			// carried over from the worker's earlier runs?
			rf.NeedsShare = true
			if rf.ShareStride == 0 || !verifyShare(bin, o, rf) {
				return fatal2("replay of %s in a fresh process did not reproduce the violation (exit %d): %s", path, code, tail(string(outb), 3))
			}
			rf.Note = "reproduces only after the earlier runs of the same worker process (library state that survives across runs); replay re-executes the worker's share (run indices share_offset, +share_stride, ... up to run) in a fresh process"
			if b, err := json.MarshalIndent(rf, "", " "); err == nil {
				os.WriteFile(path, b, 0o644)
			}
		}
		reported[key] = true
		if k := matchKnown(known, rf.Violation); k != nil {
			if !knownHit[k.Description] {
				fmt.Printf("KNOWN-FINDING: property=%s %s at %s: %s\n", o.prop, rf.Violation.Class, rf.Violation.Site, k.Description)
				knownHit[k.Description] = true
			}
			os.Remove(path)
			continue
		}
		nViol++
		fmt.Printf("violation: %s\n", rf.Violation.Error())
		fmt.Printf("VIOLATION property=%s replay=%s\n", o.prop, path)
		exit = 1
	}
	// 2. crashes: confirm by re-executing the run alone in a fresh process; if that does not
	// reproduce, by re-executing the dead worker's share up to that run
	for _, cr := range agg.crashes {
		bin := self
		if cr.race {
			bin = o.racebin
		}
		if cr.fine {
			bin = o.finebin
		}
		origClass, _, origFuncs := stderrSignature(cr.stderr)
		attempts := 1
		if origClass == "DATA_RACE" {
			attempts = 3
		}
		var r *workerResult
		confirmed, share := false, false
		for a := 0; a < attempts && !confirmed; a++ {
			r = launchWorker(bin, o, cr.race, 0, 1, cr.idx)
			confirmed = r.crashIdx >= 0
			if len(r.viols) > 0 {
				break
			}
		}
		if r != nil && len(r.viols) > 0 {
			continue
		}
		if !confirmed {
			oo := *o
			oo.runs = cr.idx + 1
			r = launchWorker(bin, &oo, cr.race, cr.offset, cr.stride, -1)
			confirmed = r.crashIdx == cr.idx
			share = confirmed
		}
		stderrText := cr.stderr
		note := "crash-class violation: the run is regenerated from (seed, run); replaying kills the process again"
		if confirmed {
			stderrText = r.stderr
			if share {
				note = "crash-class violation: reproduces when the dead worker's share (run indices offset, offset+stride, ... up to run) is re-executed in one process; the replay does exactly that"
			}
		} else if origClass == "DATA_RACE" {
			_ = origFuncs
			// a race report naming repository code is never a false positive of the detector;
			// whether it shows again depends on the detector's randomised shadow-cell eviction
			note = "DATA RACE reported once by the Go race detector in code of the repository; re-execution did not show it again (the detector's shadow-memory eviction and sync.Pool's behaviour under -race are randomised). Original report attached."
		} else {
			_, sig0, _ := stderrSignature(cr.stderr)
			return fatal2("worker died in run %d (%s | %s) but neither the run alone nor the worker's share crashes again", cr.idx, strings.Join(sig0, " | "), tail(cr.stderr, 2))
		}
		class, sig, funcs := stderrSignature(stderrText)
		if r != nil && r.hang {
			class, sig = "HANG", []string{fmt.Sprintf("the run made no progress for more than the watchdog's limit; killed (and again when re-executed alone)")}
		}
		if class == "DATA_RACE" && len(funcs) == 0 {
			// Both stacks are in harness code: memory the library handed to two tasks at once is
			// touched by their self-checks. (The harness itself shares nothing between tasks: on
			// the unchanged tree the race build reports nothing.) Name the harness frames.
			funcs = harnessFrames(stderrText)
		}
		sort.Strings(funcs)
		v := &Violation{Property: o.prop, Class: class, Site: "process", Facts: F{"functions": strings.Join(funcs, ",")}, Detail: strings.Join(sig, " | ")}
		key := v.Key()
		if class != "DATA_RACE" {
			key += fmt.Sprint(v.Facts["functions"])
		}
		if reported[key] {
			continue
		}
		reported[key] = true
		build := "normal"
		if cr.race {
			build = "race"
		}
		if cr.fine {
			build = "fine"
		}
		rf := &ReplayFile{Property: o.prop, Seed: o.seed, Run: cr.idx, Tier: o.tier, Build: build, Alloc: o.alloc, Violation: v,
			Stderr: append(sig, funcs...), Note: note}
		if share || !confirmed {
			rf.ShareOffset, rf.ShareStride = cr.offset, cr.stride
		}
		path, err := WriteReplay(o.replayDir, rf)
		if err != nil {
			return fatal2("cannot write replay: %v", err)
		}
		if k := matchKnown(known, v); k != nil {
			fmt.Printf("KNOWN-FINDING: property=%s %s: %s\n", o.prop, v.Class, k.Description)
			os.Remove(path)
			continue
		}
		nViol++
		fmt.Printf("violation: %s\n", v.Error())
		fmt.Printf("VIOLATION property=%s replay=%s\n", o.prop, path)
		exit = 1
	}
	wall := time.Since(t0).Seconds()
	if fineAgg != nil {
		agg.counters["fine_build.runs"] = fineAgg.runs
		for k, v := range fineAgg.counters {
			if strings.HasPrefix(k, "probe.switch_at_") || strings.HasPrefix(k, "sched.") {
				agg.counters["fine_build."+k] = v
			}
		}
		agg.runs += fineAgg.runs
		agg.nonTriv += fineAgg.nonTriv
		agg.events += fineAgg.events
		agg.ops += fineAgg.ops
		for g := range fineAgg.sigs {
			agg.sigs[g^0xF1] = true
		}
	}
	if err := writeEvidence(o, p, agg, raceAgg, wall, nViol, len(knownHit)); err != nil {
		return fatal2("cannot write evidence: %v", err)
	}
	fmt.Printf("%s %s: runs=%d (race build: %d) nontrivial=%d distinct_nontrivial=%d ops=%d events=%d wall=%.1fs violations=%d foreign=%v\n",
		o.prop, o.tier, agg.runs, raceRunsOf(raceAgg), agg.nonTriv, len(agg.sigs), agg.ops, agg.events, wall, nViol, agg.foreign)
	return exit
}

func raceRunsOf(a *batchAgg) int64 {
	if a == nil {
		return 0
	}
	return a.runs
}

func writeEvidence(o *options, p *Prop, agg, raceAgg *batchAgg, wall float64, nViol, nKnown int) error {
	faultsFired := map[string]int64{}
	faultsCfg := map[string]int64{}
	probes := map[string]int64{}
	other := map[string]int64{}
	for k, v := range agg.counters {
		switch {
		case strings.HasPrefix(k, "fault.fired."):
			faultsFired[k[len("fault.fired."):]] = v
		case strings.HasPrefix(k, "fault.cfg."):
			faultsCfg[k[len("fault.cfg."):]] = v
		case strings.HasPrefix(k, "probe."):
			probes[k[len("probe."):]] = v
		default:
			other[k] = v
		}
	}
	var zero []string
	for _, pr := range p.Probes {
		if probes[pr] == 0 {
			zero = append(zero, pr)
		}
	}
	samples := []interface{}{}
	for _, s := range agg.samples {
		samples = append(samples, s)
	}
	if len(samples) == 0 {
		samples = append(samples, "no sample captured in this batch")
	}
	cov := map[string]interface{}{
		"evaluations":                  agg.runs + raceRunsOf(raceAgg),
		"distinct_nontrivial":          len(agg.sigs),
		"rule":                         p.Rule + " A run is non-trivial if at least one fault fired, a buffer was grown or recycled, or a task switch happened; two runs are distinct if the hashes of their abstract event traces (operation kind x size bucket x outcome x flags) differ.",
		"samples":                      samples,
		"exhaustive":                   false,
		"simulated_runs":               agg.runs,
		"race_build_runs":              raceRunsOf(raceAgg),
		"nontrivial_runs":              agg.nonTriv,
		"distinct_abstract_3grams":     len(agg.ngrams),
		"distinct_schedule_signatures": len(agg.schedSigs),
		"operations":                   agg.ops,
		"simulated_time_events":        agg.events,
		"runs_per_hour":                int64(float64(agg.runs+raceRunsOf(raceAgg)) / wall * 3600),
		"seeds_per_hour":               fmt.Sprintf("%.1f batches of this size per hour; every run index of a batch is its own PRNG stream derived from VERIF_SEED", 3600/wall),
		"faults_fired":                 faultsFired,
		"faults_configured":            faultsCfg,
		"reach_probes":                 probes,
		"reach_probes_at_zero":         zero,
		"counters":                     other,
		"foreign_observations":         agg.foreign,
		"known_findings_matched":       nKnown,
		"components":                   p.Components,
		"faults_not_injectable":        append([]string{"clock skew/jumps and timer faults: the code has no clock or timer", "network partitions, reordering, duplication between nodes: no multi-node protocol", "disk torn/lost writes, fsync loss: no persistent storage"}, p.NotInjectable...),
		"workers":                      o.workers,
	}
	if raceAgg != nil {
		cov["race_build"] = map[string]interface{}{"runs": raceAgg.runs, "counters": raceAgg.counters}
	}
	ev := map[string]interface{}{
		"property_id": p.ID,
		"tier":        o.tier,
		"seed":        o.seed,
		"level":       "exploration",
		"coverage":    cov,
		"assumptions": append([]string{
			"sampling, not proof: a clean batch is evidence only",
			"simulated io.Reader/io.Writer and (in ledger/fence mode) the mcache/dirtmake shim stand in for the network and the shared allocator",
			"Go map iteration order and maphash seeds are not seedable; oracles compare canonically",
		}, p.Assumptions...),
		"wall_s":     wall,
		"violations": nViol,
	}
	b, err := json.MarshalIndent(ev, "", " ")
	if err != nil {
		return err
	}
	// the interface file is rewritten on every run; a per-tier copy keeps the last thorough
	// batch visible after later quick runs
	os.MkdirAll(filepath.Join(o.evidenceDir, "by-tier"), 0o755)
	_ = os.WriteFile(filepath.Join(o.evidenceDir, "by-tier", p.ID+"."+o.tier+".json"), b, 0o644)
	return os.WriteFile(filepath.Join(o.evidenceDir, p.ID+".json"), b, 0o644)
}

// ---------------------------------------------------------------------------------------
// determinism self-test
// ---------------------------------------------------------------------------------------

func selftestMain(o *options) int {
	os.MkdirAll(o.tmpDir, 0o755)
	self, _ := os.Executable()
	props := []string{}
	if o.prop != "" {
		props = append(props, o.prop)
	} else {
		for id := range Props {
			props = append(props, id)
		}
		sort.Strings(props)
	}
	bad := 0
	for _, id := range props {
		allocs := []string{"", "real", "fence"}
		if o.finebin != "" && Props[id].FineQuick > 0 {
			allocs = append(allocs, "fine-build")
		}
		for _, alloc := range allocs {
			bin := self
			if alloc == "fine-build" {
				bin, alloc = o.finebin, ""
			}
			var ref map[int]string
			for _, wc := range []int{1, 4, 16} {
				oo := *o
				oo.prop, oo.workers, oo.runs, oo.alloc = id, wc, o.selftestN, alloc
				got := map[int]string{}
				var mu sync.Mutex
				var wg sync.WaitGroup
				var replayDiff []int
				for w := 0; w < wc; w++ {
					w := w
					wg.Add(1)
					go func() {
						defer wg.Done()
						r := launchWorker(bin, &oo, false, w, wc, -1, "-hashes")
						mu.Lock()
						defer mu.Unlock()
						if r.sum != nil {
							for k, v := range r.sum.Hashes {
								got[k] = v
							}
							replayDiff = append(replayDiff, r.sum.ReplayDiff...)
						}
						if r.fault != "" || r.crashIdx >= 0 {
							fmt.Printf("selftest %s alloc=%q workers=%d: worker problem: %s crash=%d %s\n", id, alloc, wc, r.fault, r.crashIdx, tail(r.stderr, 3))
							bad++
						}
					}()
				}
				wg.Wait()
				if len(replayDiff) > 0 {
					fmt.Printf("selftest %s alloc=%q workers=%d: in-process tape replay differs for runs %v\n", id, alloc, wc, replayDiff)
					bad++
				}
				if ref == nil {
					ref = got
					continue
				}
				diff := 0
				for k, v := range ref {
					if got[k] != v {
						if diff < 5 {
							fmt.Printf("selftest %s alloc=%q: run %d hash %s (1 worker) vs %s (%d workers)\n", id, alloc, k, v, got[k], wc)
						}
						diff++
					}
				}
				if diff > 0 || len(got) != len(ref) {
					bad++
				}
			}
			fmt.Printf("selftest %s alloc=%q build=%s: %d runs x 3 process layouts (1/4/16 workers) + tape replay: %s\n", id, alloc, filepath.Base(bin), len(ref), map[bool]string{true: "identical", false: "DIFFERENT"}[bad == 0])
		}
	}
	if bad > 0 {
		fmt.Println("SELFTEST FAILED")
		return 2
	}
	fmt.Println("SELFTEST OK")
	return 0
}
