//go:build race

package sim

func init() { RaceBuild = true }
