package sim

import (
	"errors"
	"fmt"
	"io"
)

// Chunking modes of a Source.
const (
	ChunkFill    = iota // as much as fits in p
	ChunkOne            // 1 byte per read
	ChunkSmall          // 1..16
	ChunkMedium         // 1..1500
	ChunkRequest        // around the size the harness is about to request (hint-1, hint, hint+1, hint/2)
	ChunkMixed          // any of the above, per read
	ChunkExact          // exactly the size the harness is about to request (lockstep peer)
	chunkModes
)

var chunkNames = []string{"fill", "1B", "small", "medium", "request±1", "mixed", "exact"}

// Injectable terminal errors.
type PtrError struct{ Msg string }

func (e *PtrError) Error() string { return e.Msg }

var (
	ErrCustom  = errors.New("sim: connection reset by simulated peer")
	ErrWrapped = fmt.Errorf("sim: read failed: %w", io.ErrClosedPipe)
	// ErrWrappedEOF wraps io.EOF: errors.Is(err, io.EOF) holds, yet it is its own value.
	ErrWrappedEOF = fmt.Errorf("sim: peer closed the connection: %w", io.EOF)
)

// TimeoutError looks like a deadline error of the net package: it has Timeout() == true.
type TimeoutError struct{}

func (TimeoutError) Error() string   { return "sim: i/o timeout" }
func (TimeoutError) Timeout() bool   { return true }
func (TimeoutError) Temporary() bool { return true }

// ErrTimeout is the comparable instance used as an injectable error.
var ErrTimeout error = TimeoutError{}

// PtrEOFError is a pointer-typed error whose Unwrap returns io.EOF.
type PtrEOFError struct{ Msg string }

func (e *PtrEOFError) Error() string { return e.Msg }
func (e *PtrEOFError) Unwrap() error { return io.EOF }

// TermErrors is the alphabet of terminal error values; index 0 is the simplest.
func TermError(k int) error {
	switch k {
	case 0:
		return io.EOF
	case 1:
		return io.ErrUnexpectedEOF
	case 2:
		return ErrCustom
	case 3:
		return &PtrError{"sim: pointer-typed error"}
	case 4:
		return ErrWrapped
	case 5:
		return ErrWrappedEOF
	case 6:
		return &PtrEOFError{"sim: pointer-typed error wrapping io.EOF"}
	default:
		return ErrTimeout
	}
}

const NumTermErrors = 8

// SourceCfg is the delivery profile of a Source (chosen swarm-style per run).
type SourceCfg struct {
	Mode     int
	ZeroDen  int // a zero-byte-read streak starts with probability 1/ZeroDen (0 = never)
	ZeroMax  int // maximum streak length (kept far below the conventional bound of 100)
	StallAt  int // from this stream offset on the source returns (0,nil) forever (-1 = never)
	ErrAt    int // stream offset at which the terminal error is issued
	Err      error
	WithData int // 0: error alone after the data, 1: together with the last data, 2: tape decides when it happens
}

// Source is the simulated io.Reader: the peer's byte stream plus a delivery schedule.
type Source struct {
	C    *Ctx
	st   *Stream
	Name string
	Data []byte
	Pos  int // bytes handed out so far: the consumption cursor of the underlying source
	Cfg  SourceCfg

	Issued     bool  // the terminal error has been returned at least once
	Reads      int64 // Read calls in total
	CallReads  int   // Read calls since the harness last reset it (per API call)
	CallBytes  int
	CallZero   int // zero-byte reads in the current call
	MaxStreak  int // longest run of consecutive zero-byte reads (whole life)
	curStreak  int
	Hint       int // size the harness is about to request
	zeroLeft   int
	Stalling   bool
	Budget     int // reads per API call before NO_PROGRESS (livelock on the source)
	AfterErr   int // Read calls after the terminal error was issued
	EmptyP     int // Read calls with len(p)==0
	WithErrCnt int // bytes that were delivered together with the error
	Over       int // bytes beyond the hint delivered in the read that carried the error
}

// NewSource creates a Source on c's tape; name distinguishes several sources in one run.
func NewSource(c *Ctx, name string, data []byte, cfg SourceCfg) *Source {
	if cfg.ErrAt > len(data) || cfg.ErrAt < 0 {
		cfg.ErrAt = len(data)
	}
	if cfg.Err == nil {
		cfg.Err = io.EOF
	}
	return &Source{C: c, st: c.Tape.S("src." + name), Name: name, Data: data, Cfg: cfg, Budget: 100000}
}

// RandomSourceCfg draws a delivery profile (swarm style) for a stream of n bytes. The
// caller adjusts ErrAt/StallAt afterwards if it wants faults inside the stream.
func RandomSourceCfg(s *Stream, n int) SourceCfg {
	cfg := SourceCfg{StallAt: -1, ErrAt: n}
	cfg.Mode = s.Pick(3, 2, 2, 2, 3, 3)
	if s.Chance(1, 3) {
		cfg.ZeroDen = []int{2, 4, 16}[s.Choose(3)]
		cfg.ZeroMax = []int{1, 3, 8}[s.Choose(3)]
	}
	cfg.Err = TermError(s.Pick(6, 1, 2, 1, 1, 1, 1, 1))
	cfg.WithData = s.Pick(2, 2, 3)
	return cfg
}

func (c SourceCfg) String() string {
	return fmt.Sprintf("chunk=%s zero=1/%d(max %d) stall@%d err@%d(%v) withData=%d", chunkNames[c.Mode], c.ZeroDen, c.ZeroMax, c.StallAt, c.ErrAt, c.Err, c.WithData)
}

// BeginCall resets the per-API-call accounting and sets the request hint.
func (s *Source) BeginCall(hint int) {
	s.CallReads, s.CallBytes, s.CallZero = 0, 0, 0
	s.Hint = hint
}

func (s *Source) zero() (int, error) {
	s.CallZero++
	s.curStreak++
	if s.curStreak > s.MaxStreak {
		s.MaxStreak = s.curStreak
	}
	if s.curStreak > 64 && !s.Stalling {
		panic("harness invariant broken: the Source produced more than 64 consecutive zero-byte reads outside a stall")
	}
	s.C.Ev(0x51, 0)
	return 0, nil
}

// Read implements io.Reader.
func (s *Source) Read(p []byte) (int, error) {
	c := s.C
	c.Sched.Yield(c.TaskID, YRead)
	s.Reads++
	s.CallReads++
	if s.CallReads > s.Budget {
		c.Fail("NO_PROGRESS", c.Op, F{"reads_in_call": s.CallReads}, "the source was read %d times within one API call without the call returning", s.CallReads)
	}
	if s.Issued {
		s.AfterErr++
		c.Count("probe.read_after_terminal_error")
		c.Ev(0x52)
		return 0, s.Cfg.Err
	}
	if len(p) == 0 {
		s.EmptyP++
		c.Count("probe.read_with_empty_p")
		c.Ev(0x53)
		return 0, nil
	}
	if s.Cfg.StallAt >= 0 && s.Pos >= s.Cfg.StallAt {
		if !s.Stalling {
			s.Stalling = true
			c.Count("fault.fired.stall")
			c.NonTriv = true
			c.Tracef("  src %s: STALL begins at offset %d", s.Name, s.Pos)
		}
		return s.zero()
	}
	if s.zeroLeft > 0 {
		s.zeroLeft--
		return s.zero()
	}
	// a new streak may only start after a read that delivered data: consecutive zero-byte
	// reads never exceed ZeroMax (far below the conventional no-progress bound of 100)
	if s.Cfg.ZeroDen > 0 && s.curStreak == 0 && s.st.Chance(1, s.Cfg.ZeroDen) {
		s.zeroLeft = s.st.Choose(s.Cfg.ZeroMax)
		c.Count("fault.fired.zero_read_streak")
		c.Tracef("  src %s: zero-byte read x%d", s.Name, s.zeroLeft+1)
		return s.zero()
	}
	s.curStreak = 0
	remaining := s.Cfg.ErrAt - s.Pos
	if remaining <= 0 {
		s.Issued = true
		c.Count("fault.fired.terminal_error_alone")
		c.Tracef("  src %s: Read(cap %d) -> 0, %v", s.Name, len(p), s.Cfg.Err)
		c.Ev(0x54)
		return 0, s.Cfg.Err
	}
	mode := s.Cfg.Mode
	if s.CallReads > 3000 {
		// keep the number of reads per API call (and the tape) bounded: after 3000 reads
		// within one call the peer's small packets coalesce
		mode = ChunkFill
	} else if mode == ChunkMixed {
		mode = s.st.Choose(chunkModes - 2)
	}
	n := len(p)
	switch mode {
	case ChunkOne:
		n = 1
	case ChunkSmall:
		n = 1 + s.st.Choose(16)
	case ChunkMedium:
		n = 1 + s.st.Choose(1500)
	case ChunkExact:
		n = s.Hint
		if n < 1 {
			n = 1
		}
	case ChunkRequest:
		h := s.Hint
		switch s.st.Choose(5) {
		case 0:
			n = h
		case 1:
			n = h - 1
		case 2:
			n = h + 1
		case 3:
			n = h / 2
		case 4:
			n = h + 1 + s.st.Choose(64)
		}
		if n < 1 {
			n = 1
		}
	}
	if n > len(p) {
		n = len(p)
	}
	if n > remaining {
		n = remaining
	}
	if s.Cfg.StallAt >= 0 && n > s.Cfg.StallAt-s.Pos {
		n = s.Cfg.StallAt - s.Pos
	}
	copy(p, s.Data[s.Pos:s.Pos+n])
	s.Pos += n
	s.CallBytes += n
	c.Ev(0x55, uint64(n))
	if s.Pos == s.Cfg.ErrAt {
		with := s.Cfg.WithData == 1 || (s.Cfg.WithData == 2 && s.st.Chance(1, 2))
		if with {
			s.Issued = true
			s.WithErrCnt = n
			c.Count("fault.fired.data_with_error")
			if s.CallBytes > s.Hint && s.Hint > 0 {
				c.Count("probe.more_than_requested_with_error")
			}
			c.NonTriv = true
			c.Tracef("  src %s: Read(cap %d) -> %d, %v   (data together with the error)", s.Name, len(p), n, s.Cfg.Err)
			return n, s.Cfg.Err
		}
	}
	if c.Verbose() {
		c.Tracef("  src %s: Read(cap %d) -> %d", s.Name, len(p), n)
	}
	return n, nil
}

// Remaining returns how many bytes the source can still deliver before its error.
func (s *Source) Remaining() int { return s.Cfg.ErrAt - s.Pos }

// Sink is the simulated io.Writer. It copies what it is given, fails at its FailAt-th
// Write with Err, accepting a tape-chosen strict prefix of that write.
type Sink struct {
	C       *Ctx
	st      *Stream
	Name    string
	Got     []byte
	Bounds  []int // end offset in Got after each Write call
	Writes  int
	FailAt  int // 1-based index of the failing Write (0 = never)
	Err     error
	Recover bool // after the failing write, later writes succeed again
	Failed  bool
	// AcceptEighths >= 0 fixes the accepted prefix of the failing write to len(p)*n/8 (used
	// by fault enumeration, where the tape of the fault-free execution has no value for it).
	AcceptEighths int
}

// NewSink creates a sink.
func NewSink(c *Ctx, name string) *Sink {
	return &Sink{C: c, st: c.Tape.S("sink." + name), Name: name, AcceptEighths: -1}
}

// Write implements io.Writer.
func (k *Sink) Write(p []byte) (int, error) {
	c := k.C
	c.Sched.Yield(c.TaskID, YWrite)
	k.Writes++
	fail := (k.FailAt > 0 && k.Writes == k.FailAt) || (k.Failed && !k.Recover)
	if fail {
		m := 0
		if len(p) > 0 {
			// any count 0..len(p) may accompany the error, including the full count (a layered
			// writer that took the bytes and then failed on its own flush)
			if k.AcceptEighths >= 0 {
				m = len(p) * (k.AcceptEighths % 9) / 8
			} else {
				m = k.st.Choose(len(p) + 1)
				if k.st.Chance(1, 4) {
					m = len(p)
				}
			}
			if m == len(p) {
				c.Count("probe.sink_error_with_full_count")
			}
		}
		k.Got = append(k.Got, p[:m]...)
		k.Bounds = append(k.Bounds, len(k.Got))
		if !k.Failed {
			c.Count("fault.fired.sink_write_error")
			c.NonTriv = true
		}
		k.Failed = true
		c.Ev(0x61, uint64(len(p)), uint64(m))
		c.Tracef("  sink %s: Write(%d bytes) -> %d, %v", k.Name, len(p), m, k.Err)
		return m, k.Err
	}
	k.Got = append(k.Got, p...)
	k.Bounds = append(k.Bounds, len(k.Got))
	c.Ev(0x62, uint64(len(p)))
	if c.Verbose() {
		c.Tracef("  sink %s: Write(%d bytes) -> ok", k.Name, len(p))
	}
	return len(p), nil
}
