package sim

import (
	"fmt"
	"runtime"
	"sort"
	"strings"

	"github.com/bytedance/gopkg/lang/dirtmake"
)

// F is the facts map of a violation.
type F map[string]interface{}

// Violation is (property, class, site, facts): the key used for shrinking, replay
// comparison and known findings. Detail is free text for the reader.
type Violation struct {
	Property string `json:"property"`
	Class    string `json:"class"`
	Site     string `json:"site"`
	Facts    F      `json:"facts,omitempty"`
	Detail   string `json:"detail,omitempty"`
	Foreign  bool   `json:"foreign,omitempty"` // class owned by another property's check
}

func (v *Violation) Error() string {
	return fmt.Sprintf("%s %s at %s %v: %s", v.Property, v.Class, v.Site, v.Facts, v.Detail)
}

// Key identifies the violation for shrinking: class + site (facts may legitimately shrink).
func (v *Violation) Key() string { return v.Class + "@" + v.Site }

// classOwners maps a violation class to the properties whose statement it negates.
// A check fails only on classes of its own property; others are foreign observations.
// Classes not listed belong to whichever property raised them.
var classOwners = map[string][]string{
	"DOUBLE_FREE":       {"C09", "C14"},
	"INTERIOR_FREE":     {"C09", "C14"},
	"CALLER_MEM_FREED":  {"C09", "C14"},
	"WRITE_AFTER_FREE":  {"C09", "C14"},
	"ACCESS_AFTER_FREE": {"C09", "C14"},
	"GUARD_PAGE":        {"C09", "C14"},
	"COTENANT_DAMAGED":  {"C09", "C14"},
	"SOLO_FAILURE":      {"none"},
	"CALLER_MODIFIED":   {"C09"},
	"INPUT_MODIFIED":    {"C09"},
	"RETAINED_CHANGED":  {"C09"},
	// cursor-model classes of the buffered reader
	"NIL_NIL": {"C04", "C14"}, "WRONG_BYTES": {"C04", "C14"}, "WRONG_LEN": {"C04", "C14"}, "READLEN": {"C04", "C14"},
	"CONSUMED_ON_FAILURE": {"C04", "C14"}, "PEEK_ADVANCED": {"C04", "C14"}, "OVER_REPORT": {"C04", "C14"}, "SHORT_NO_ERROR": {"C04", "C14"},
	"UNEXPLAINED_ERROR": {"C04", "C05", "C14"}, "WRONG_ERROR": {"C04", "C14"}, "FABRICATED_ERROR": {"C04", "C14"}, "LOSS_AT_DRAIN": {"C04", "C14"},
	"BYTES_WITH_ERROR": {"C04", "C14"}, "NEGATIVE_ACCEPTED": {"C04", "C05", "C14"}, "SKIP_BEYOND_END": {"C04", "C14"}, "CONSUMED_NE_REPORTED": {"C04", "C14"},
	// codec classes (C01), skip classes (C02/C08)
	"WIRE_MISMATCH": {"C01"}, "VALUE_MISMATCH": {"C01"}, "READ_ERROR": {"C01"}, "WRITE_ERROR": {"C01"}, "CONSUMED_LEN": {"C01"}, "LENGTH_MISMATCH": {"C01"},
	// a call that should have failed but succeeded is an acceptance problem, not an
	// error-classification problem
	"ERR_MISSING": {"C01", "C02", "C08", "C12"},
	"SKIP_LEN":    {"C02", "C08"}, "SKIP_BYTES": {"C02", "C08"}, "REJECTED_VALID": {"C02", "C08"}, "READ_AHEAD": {"C02", "C08"}, "SKIP_STREAM_DESYNC": {"C02"},
	// region-list-model classes of the buffered writer
	"SINK_MISMATCH": {"C05", "C14"}, "SINK_NOT_PREFIX": {"C05", "C14"}, "WRITTENLEN": {"C05", "C14"}, "REGION_LEN": {"C05", "C14"},
	"ERR_NOT_RETURNED": {"C05", "C14"}, "ERR_NOT_STICKY": {"C05", "C14"}, "TARGET_MISMATCH": {"C05", "C14"}, "WRITEBINARY_SHORT": {"C05", "C14"},
	"WRITE_AFTER_ERROR": {"C05", "C14"}, "REGION_CLOBBERED": {"C05", "C09", "C14"},
}

// Ctx is the context of one simulated run.
type Ctx struct {
	Prop  string
	Seed  int64
	Index int
	Tier  string
	Tape  *Tape
	Cfg   *Stream // run configuration stream (swarm choices)

	hash   uint64
	Events int64 // simulated time: one tick per event

	Counters map[string]int64
	abs      []uint32 // abstract event codes for n-gram coverage
	absCap   int
	NonTriv  bool // run contained a fired fault, a growth, a recycle or a task switch

	Tracing bool
	trace   []string

	Op    string // API operation in progress (site for panics)
	Ops   int64  // harness operations executed
	Sched *Sched // nil for single-task runs

	SampleWanted bool
	Sample       []string

	TaskID int // -1 for the run's root context

	Alloc       AllocCfg
	allocStream *Stream
	steps       []int64
}

func newCtx(prop string, seed int64, idx int, tier string, tape *Tape) *Ctx {
	c := &Ctx{Prop: prop, Seed: seed, Index: idx, Tier: tier, Tape: tape, Counters: map[string]int64{}, absCap: 4096}
	c.Cfg = tape.S("cfg")
	c.hash = 0x1234567890abcdef
	c.TaskID = -1
	return c
}

// sub creates the child context of a task: own counters, hash, trace and tape streams, so
// that concurrently running tasks share no harness state (race-detector hygiene).
func (c *Ctx) sub(name string, id int) *Ctx {
	return c.subTape(name, id, c.Tape.Sub(fmt.Sprintf("t%d/", id)))
}

func (c *Ctx) subTape(name string, id int, tape *Tape) *Ctx {
	ch := &Ctx{Prop: c.Prop, Seed: c.Seed, Index: c.Index, Tier: c.Tier, Tape: tape,
		Counters: map[string]int64{}, absCap: 1024, Tracing: c.Tracing, SampleWanted: c.SampleWanted, Sched: c.Sched, TaskID: id}
	ch.Cfg = ch.Tape.S("cfg")
	ch.hash = mix64(uint64(id) + 77)
	return ch
}

// Fork returns a child context whose decisions are replayed from rec (streams addressed by
// bare name, e.g. as returned by Recorded of an earlier Fork/solo execution) or, when rec is
// nil, generated and recorded under the given prefix. Used to re-execute the same scenario
// under an enumerated fault (every k-th sink write, every cut point).
func (c *Ctx) Fork(prefix string, rec map[string][]uint32) *Ctx {
	var tape *Tape
	if rec != nil {
		tape = NewReplayTape(rec)
	} else {
		tape = c.Tape.Sub(prefix)
	}
	ch := c.subTape(prefix, 0, tape)
	ch.TaskID = -1
	ch.Sched = nil
	return ch
}

// ForkRecorded returns what a generated Fork consumed, addressed by bare stream name.
func (c *Ctx) ForkRecorded() map[string][]uint32 {
	rec := map[string][]uint32{}
	c.Tape.collect(rec)
	bare := map[string][]uint32{}
	for k, v := range rec {
		bare[k[len(c.Tape.prefix):]] = v
	}
	return bare
}

// Join folds a finished fork into its parent.
func (c *Ctx) Join(ch *Ctx) { c.merge(ch) }

// merge folds a finished task's context into the run context (main goroutine, after join).
func (c *Ctx) merge(ch *Ctx) {
	for k, v := range ch.Counters {
		c.Counters[k] += v
	}
	c.hash = (c.hash ^ ch.hash) * 0x100000001b3
	c.Events += ch.Events
	c.Ops += ch.Ops
	for _, a := range ch.abs {
		c.Abs(a ^ uint32(ch.TaskID+1)<<28)
	}
	if ch.NonTriv {
		c.NonTriv = true
	}
	// interleave traces by global step
	if len(ch.trace) > 0 {
		merged := make([]string, 0, len(c.trace)+len(ch.trace))
		msteps := make([]int64, 0, len(c.trace)+len(ch.trace))
		i, j := 0, 0
		for i < len(c.trace) || j < len(ch.trace) {
			if j >= len(ch.trace) || (i < len(c.trace) && c.stepAt(i) <= ch.steps[j]) {
				merged = append(merged, c.trace[i])
				msteps = append(msteps, c.stepAt(i))
				i++
			} else {
				merged = append(merged, ch.trace[j])
				msteps = append(msteps, ch.steps[j])
				j++
			}
		}
		c.trace, c.steps = merged, msteps
	}
	if len(c.Sample) < 60 {
		c.Sample = append(c.Sample, ch.Sample...)
	}
}

func (c *Ctx) stepAt(i int) int64 {
	if i < len(c.steps) {
		return c.steps[i]
	}
	return -1
}

// Ev adds values to the event-log hash and advances simulated time by one tick.
//
//go:norace
func (c *Ctx) Ev(vals ...uint64) {
	c.Events++
	h := c.hash
	for _, v := range vals {
		h = (h ^ v) * 0x100000001b3
		h ^= h >> 29
	}
	c.hash = h
}

// EvBytes hashes a byte slice into the event log.
//
//go:norace
func (c *Ctx) EvBytes(b []byte) {
	h := c.hash
	for _, v := range b {
		h = (h ^ uint64(v)) * 0x100000001b3
	}
	h ^= h >> 29
	c.hash = h
}

// Hash returns the event-log hash.
func (c *Ctx) Hash() uint64 { return c.hash }

// Count increments a named counter (fault fired, probe reached, ...).
//
//go:norace
func (c *Ctx) Count(name string) { c.Counters[name]++ }

// CountN adds n to a named counter.
//
//go:norace
func (c *Ctx) CountN(name string, n int64) { c.Counters[name] += n }

// Abs records an abstract event (op kind x size bucket x outcome x flags) for the distinct-
// behaviour measure.
//
//go:norace
func (c *Ctx) Abs(code uint32) {
	if len(c.abs) < c.absCap {
		c.abs = append(c.abs, code)
	}
}

// AbsS records an abstract event named by a string.
//
//go:norace
func (c *Ctx) AbsS(s string) { c.Abs(uint32(hashString(s))) }

// Tracef appends to the human-readable trace (only when tracing: replay and reports). It
// never draws from the tape and never reads a clock.
//
//go:norace
func (c *Ctx) Tracef(format string, args ...interface{}) {
	if !c.Tracing && !c.SampleWanted {
		return
	}
	line := fmt.Sprintf(format, args...)
	var step int64 = -1
	if c.TaskID >= 0 {
		step = c.Sched.Steps()
		line = fmt.Sprintf("[t%d @%d] %s", c.TaskID, step, line)
	}
	if c.Tracing && len(c.trace) < 5000 {
		c.trace = append(c.trace, line)
		c.steps = append(c.steps, step)
	}
	if c.SampleWanted && len(c.Sample) < 60 {
		c.Sample = append(c.Sample, line)
	}
}

// Verbose reports whether Tracef output is being kept (to avoid building expensive args).
func (c *Ctx) Verbose() bool { return c.Tracing || c.SampleWanted }

// Fail raises a violation: it does not return.
func (c *Ctx) Fail(class, site string, facts F, format string, args ...interface{}) {
	panic(&Violation{Property: c.Prop, Class: class, Site: site, Facts: facts, Detail: fmt.Sprintf(format, args...)})
}

// runAbort ends a run without a verdict (counted in the evidence).
type runAbort struct{ reason string }

// AbortRun ends the run without a verdict, e.g. after a simulated out-of-memory that the
// scenario did not provoke on purpose.
func (c *Ctx) AbortRun(reason string) {
	c.Count("aborted." + reason)
	panic(runAbort{reason})
}

// GuardNoOOM is Guard for scenarios that never ask for huge sizes: a simulated OOM ends the
// run without a verdict.
func (c *Ctx) GuardNoOOM(op string, f func()) {
	if out := c.Guard(op, f); out.OOM != nil {
		c.AbortRun("unexpected_sim_oom")
	}
}

// Outcome of Guard.
type Outcome struct {
	OOM      *dirtmake.SimOOM // simulated out of memory inside the call
	Panicked bool
}

// Guard runs f (code under test) with the API operation name op. A panic raised by the
// code under test becomes a PANIC violation whose site is op and whose facts name the panic
// class and the top frames inside the repository; a simulated OOM is returned to the caller;
// violations raised by simulator components (allocator ledger, Source, Sink) pass through.
func (c *Ctx) Guard(op string, f func()) (out Outcome) {
	prev := c.Op
	c.Op = op
	defer func() {
		c.Op = prev
		if r := recover(); r != nil {
			switch v := r.(type) {
			case *Violation:
				panic(v)
			case *dirtmake.SimOOM:
				out.OOM = v
				c.Count("fault.fired.sim_oom")
				c.Tracef("  !! %s", v.Error())
				return
			case schedAbort:
				panic(v)
			case runAbort:
				panic(v)
			}
			panic(c.panicViolation(op, r))
		}
	}()
	f()
	return
}

func (c *Ctx) panicViolation(op string, r interface{}) *Violation {
	kind := panicClass(r)
	frames := repoFrames(6)
	facts := F{"panic": kind}
	if len(frames) > 0 {
		facts["frame"] = frames[0]
	}
	class := "PANIC"
	// a fault on fenced allocator memory is an access after free / overrun
	if e, ok := r.(interface{ Addr() uintptr }); ok {
		if cls, det := DescribeFault(e.Addr()); cls != "" {
			class = cls
			facts["fault"] = det
		}
	}
	return &Violation{Property: c.Prop, Class: class, Site: op, Facts: facts,
		Detail: fmt.Sprintf("panic in %s: %v; frames: %s", op, r, strings.Join(frames, " <- "))}
}

// DescribeFault is set by the allocator glue to classify a faulting address.
var DescribeFault = func(addr uintptr) (class, detail string) { return "", "" }

func panicClass(r interface{}) string {
	var s string
	switch v := r.(type) {
	case runtime.Error:
		s = v.Error()
	case error:
		s = v.Error()
	case string:
		s = v
	default:
		s = fmt.Sprint(v)
	}
	switch {
	case strings.Contains(s, "index out of range"):
		return "index out of range"
	case strings.Contains(s, "slice bounds out of range"):
		return "slice bounds out of range"
	case strings.Contains(s, "nil pointer"):
		return "nil pointer dereference"
	case strings.Contains(s, "divide by zero"):
		return "divide by zero"
	case strings.Contains(s, "makeslice"), strings.Contains(s, "len out of range"):
		return "makeslice: len out of range"
	case strings.Contains(s, "unexpected fault address"), strings.Contains(s, "invalid memory address"):
		return "memory fault"
	}
	if len(s) > 60 {
		s = s[:60]
	}
	return s
}

// repoFrames returns up to n function names of frames inside github.com/cloudwego/gopkg
// on the current (panicking) stack, innermost first.
func repoFrames(n int) []string {
	pcs := make([]uintptr, 64)
	k := runtime.Callers(3, pcs)
	fr := runtime.CallersFrames(pcs[:k])
	var out []string
	for {
		f, more := fr.Next()
		if strings.Contains(f.Function, "cloudwego/gopkg") {
			name := f.Function[strings.LastIndex(f.Function, "/")+1:]
			out = append(out, name)
			if len(out) >= n {
				break
			}
		}
		if !more {
			break
		}
	}
	return out
}

// absSignature hashes the abstract event trace (distinct-behaviour measure).
func (c *Ctx) absSignature() uint64 {
	h := uint64(0xcbf29ce484222325)
	for _, a := range c.abs {
		h = (h ^ uint64(a)) * 0x100000001b3
	}
	return h ^ uint64(len(c.abs))<<48
}

// ngrams calls f for every 3-gram of abstract events.
func (c *Ctx) ngrams(f func(uint64)) {
	a := c.abs
	for i := 0; i+2 < len(a); i++ {
		f(uint64(a[i])*0x9E3779B97F4A7C15 ^ uint64(a[i+1])*0xBF58476D1CE4E5B9 ^ uint64(a[i+2]))
	}
}

func sortedKeys(m map[string]int64) []string {
	ks := make([]string, 0, len(m))
	for k := range m {
		ks = append(ks, k)
	}
	sort.Strings(ks)
	return ks
}
