package sim

import (
	"fmt"
	"runtime"
	"runtime/debug"
	"sync"
)

// Sched is the seeded cooperative scheduler. Tasks are real goroutines, but exactly one is
// released at a time: every other task spins in `for cur != me { Gosched }` on the single P
// of the worker process. At every yield point the running task asks the tape who runs next.
//
// All scheduler functions are compiled //go:norace and use only plain variables, so in the
// -race build the hand-off is invisible to the race detector: no happens-before edge exists
// between tasks except those the code under test creates itself. Conflicting accesses the
// library does not order are therefore reported whatever the interleaving was.
type Sched struct {
	c      *Ctx
	st     *Stream
	cur    int // running task, -1 = the main goroutine
	tasks  []*Task
	steps  int64
	sig    uint64
	Switch int64
	abort  bool
	// SwitchDen: at a yield point the current task keeps running with probability
	// (SwitchDen-1)/SwitchDen (tape value 0 = stay).
	SwitchDen int
	// Coarse: yield only at harness step boundaries and I/O seams (race build), not inside
	// allocator calls, whose sequence depends on sync.Pool's random drops under -race.
	// StmtDen is SwitchDen for statement-level yield points (fine-grained build).
	StmtDen int
	// AtomicDen is SwitchDen for the scheduling points in front of sync/atomic operations.
	AtomicDen int
	Coarse    bool
	wg        sync.WaitGroup
	switchAt  [8]int64
	// priority-based scheduling (UsePCT)
	pct    bool
	prio   []int
	change []int64
	demote int
}

// Task is one simulated caller goroutine.
type Task struct {
	ID   int
	Name string
	C    *Ctx // child context: own counters, hash, trace and tape streams
	s    *Sched
	done bool
	viol *Violation
	body func(t *Task)
}

type schedAbort struct{}

// Yield points.
const (
	YStep = iota
	YRead
	YWrite
	YMalloc
	YFree
	YStmt   // before a statement of the library (fine-grained build only)
	YAtomic // before a sync/atomic operation of the library (fine-grained build only)
)

// NewSched creates a scheduler for the run c.
func NewSched(c *Ctx) *Sched {
	s := &Sched{c: c, st: c.Tape.S("sched"), cur: -1, SwitchDen: 4, StmtDen: 32, AtomicDen: 32}
	c.Sched = s
	return s
}

// Spawn registers a task. Call before Run, from the main goroutine.
func (s *Sched) Spawn(name string, body func(t *Task)) *Task {
	t := &Task{ID: len(s.tasks), Name: name, s: s, body: body}
	t.C = s.c.sub(name, t.ID)
	s.tasks = append(s.tasks, t)
	return t
}

// SpawnTape registers a task whose decisions come from the given tape (not recorded in
// the run's tape): used to re-execute a task with exactly the decisions of an earlier
// solo execution.
func (s *Sched) SpawnTape(name string, tape *Tape, body func(t *Task)) *Task {
	t := &Task{ID: len(s.tasks), Name: name, s: s, body: body}
	t.C = s.c.subTape(name, t.ID, tape)
	s.tasks = append(s.tasks, t)
	return t
}

// RunSolo executes a task body alone on the calling goroutine (no scheduler: every yield
// is a no-op) with its own child context and tape streams "t<id>/...". It returns the
// task, the streams it consumed and the violation it raised, if any.
func RunSolo(c *Ctx, id int, name string, body func(t *Task)) (t *Task, rec map[string][]uint32, viol *Violation) {
	tape := c.Tape.Sub(fmt.Sprintf("t%d/", id))
	t = &Task{ID: id, Name: name}
	t.C = c.subTape(name, id, tape)
	t.C.TaskID = -1 // no scheduler in this pass
	t.C.Sched = nil
	func() {
		defer func() {
			if r := recover(); r != nil {
				switch v := r.(type) {
				case *Violation:
					viol = v
				case runAbort:
					viol = &Violation{Class: "ABORTED", Site: v.reason}
				case schedAbort:
				default:
					viol = t.C.panicViolation(t.C.Op, r)
				}
			}
		}()
		body(t)
	}()
	rec = map[string][]uint32{}
	tape.collect(rec)
	// strip the prefix: a replay tape for the concurrent pass addresses streams by bare name
	bare := map[string][]uint32{}
	pre := tape.prefix
	for k, v := range rec {
		bare[k[len(pre):]] = v
	}
	c.merge(t.C)
	return t, bare, viol
}

//go:norace
func (s *Sched) runnable(except int) (ids []int) {
	for _, t := range s.tasks {
		if !t.done && t.ID != except {
			ids = append(ids, t.ID)
		}
	}
	return
}

//go:norace
func (s *Sched) waitFor(me int) {
	for n := 0; s.cur != me; n++ {
		runtime.Gosched()
		if n > 200_000_000 {
			// the released task never comes back: it is blocked on a real lock held by a parked
			// task (the library has none today) - a harness limit, not a verdict
			panic("scheduler stalled: the released task blocks on something a parked task holds")
		}
	}
}

// Current returns the id of the running task (-1 = main).
//
//go:norace
func (s *Sched) Current() int { return s.cur }

// Steps returns the number of yield points passed so far (a global logical clock).
//
//go:norace
func (s *Sched) Steps() int64 { return s.steps }

// Yield is a scheduling point of task me.
//
//go:norace
func (s *Sched) Yield(me int, point int) {
	if s == nil || me < 0 {
		return
	}
	if s.abort {
		panic(schedAbort{})
	}
	if s.Coarse && (point == YMalloc || point == YFree) {
		return
	}
	s.steps++
	if s.pct {
		s.yieldPCT(me, point)
		return
	}
	others := s.runnable(me)
	if len(others) == 0 {
		return
	}
	// value 0 (and most values) = keep running
	den := s.SwitchDen
	if point == YStmt {
		den = s.StmtDen
	}
	if point == YAtomic {
		den = s.AtomicDen
	}
	v := s.st.Choose(len(others) * den)
	if v < len(others)*(den-1) {
		s.sig = (s.sig ^ uint64(me+1)) * 0x100000001b3
		return
	}
	next := others[v-len(others)*(den-1)]
	s.Switch++
	s.switchAt[point&7]++
	s.sig = (s.sig ^ uint64(next+1) ^ uint64(point+1)<<8) * 0x100000001b3
	s.cur = next
	s.waitFor(me)
	if s.abort {
		panic(schedAbort{})
	}
}

// UsePCT switches the scheduler to priority-based scheduling (Burckhardt et al., "A
// randomized scheduler with probabilistic guarantees of finding bugs"): every task gets a
// distinct random priority, the highest-priority runnable task runs, and at d-1 tape-chosen
// steps out of an estimated horizon the running task drops to the lowest priority. Unlike
// the per-yield coin, this parks a task at one point for a long time while the others run to
// completion - the shape a "both loaded before either stored" defect needs. All choices are
// drawn from the tape up front, so a schedule is a handful of values.
func (s *Sched) UsePCT(depth int, horizon int64) {
	s.pct = true
	n := len(s.tasks)
	s.prio = make([]int, n)
	perm := make([]int, n)
	for i := range perm {
		perm[i] = i
	}
	for i := n - 1; i > 0; i-- {
		j := s.st.Choose(i + 1)
		perm[i], perm[j] = perm[j], perm[i]
	}
	for i, t := range perm {
		s.prio[t] = depth + n - i // all above the demoted range [0, depth)
	}
	if horizon < 1 {
		horizon = 1
	}
	s.change = s.change[:0]
	for i := 0; i < depth-1; i++ {
		// change points as (hi, lo) pairs so that big horizons stay representable on the tape
		hi := s.st.Choose(int(horizon>>12) + 1)
		lo := s.st.Choose(4096)
		s.change = append(s.change, int64(hi)<<12|int64(lo))
	}
	s.demote = depth - 1
}

//go:norace
func (s *Sched) yieldPCT(me, point int) {
	for i, cp := range s.change {
		if cp == s.steps {
			s.demote--
			s.prio[me] = s.demote
			s.change[i] = -1
		}
	}
	best := me
	for _, t := range s.tasks {
		if !t.done && s.prio[t.ID] > s.prio[best] {
			best = t.ID
		}
	}
	if best == me {
		s.sig = (s.sig ^ uint64(me+1)) * 0x100000001b3
		return
	}
	s.Switch++
	s.switchAt[point&7]++
	s.sig = (s.sig ^ uint64(best+1) ^ uint64(point+1)<<8) * 0x100000001b3
	s.cur = best
	s.waitFor(me)
	if s.abort {
		panic(schedAbort{})
	}
}

//go:norace
func (s *Sched) finish(t *Task) {
	t.done = true
	others := s.runnable(t.ID)
	if len(others) == 0 {
		s.cur = -1
		return
	}
	if s.pct {
		best := others[0]
		for _, o := range others {
			if s.prio[o] > s.prio[best] {
				best = o
			}
		}
		s.cur = best
		return
	}
	s.cur = others[s.st.Choose(len(others))]
}

//go:norace
func (s *Sched) setAbort() { s.abort = true }

//go:norace
func (s *Sched) start(first int) { s.cur = first }

//go:norace
func (s *Sched) mainWait() {
	for s.cur != -1 {
		runtime.Gosched()
	}
}

// Run starts all tasks and returns when every task has finished. The first violation
// raised by any task (in scheduling order) is returned.
func (s *Sched) Run() *Violation {
	if len(s.tasks) == 0 {
		return nil
	}
	for _, t := range s.tasks {
		t := t
		s.wg.Add(1)
		go func() {
			defer s.wg.Done()
			debug.SetPanicOnFault(true)
			s.waitFor(t.ID)
			defer s.finish(t)
			defer func() {
				if r := recover(); r != nil {
					switch v := r.(type) {
					case schedAbort:
					case runAbort:
						s.setAbort()
					case *Violation:
						if t.viol == nil {
							t.viol = v
						}
						s.setAbort()
					default:
						t.viol = t.C.panicViolation(t.C.Op, r)
						s.setAbort()
					}
				}
			}()
			if s.abortedNow() {
				return
			}
			t.body(t)
		}()
	}
	firstTask := s.tasks[s.st.Choose(len(s.tasks))].ID
	if s.pct {
		for _, t := range s.tasks {
			if s.prio[t.ID] > s.prio[firstTask] {
				firstTask = t.ID
			}
		}
	}
	s.start(firstTask)
	s.mainWait()
	s.wg.Wait() // a real happens-before edge task -> main, after all library code has run
	var first *Violation
	for _, t := range s.tasks {
		s.c.merge(t.C)
		if t.viol != nil && first == nil {
			first = t.viol
		}
	}
	s.c.Ev(uint64(s.sig), uint64(s.Switch))
	s.c.CountN("sched.switches", s.Switch)
	s.c.CountN("sched.yields", s.steps)
	for i, name := range []string{"step", "source_read", "sink_write", "malloc", "free", "statement", "atomic_op"} {
		if s.switchAt[i] > 0 {
			s.c.CountN("probe.switch_at_"+name, s.switchAt[i])
		}
	}
	if s.Switch > 0 {
		s.c.NonTriv = true
	}
	return first
}

//go:norace
func (s *Sched) abortedNow() bool { return s.abort }

// Sig returns the schedule signature (hash of the task-id sequence at yield points).
func (s *Sched) Sig() uint64 { return s.sig }

// Yield is a harness-level step boundary of the task.
func (t *Task) Yield() {
	if t.s != nil {
		t.s.Yield(t.ID, YStep)
	}
}

// Violation returns the violation the task raised, if any.
func (t *Task) Violation() *Violation { return t.viol }
