package sim

import (
	"encoding/json"
	"fmt"
	"os"
	"runtime"
	"runtime/debug"
	"sort"
	"strconv"
	"strings"
	"time"
	"unsafe"

	"github.com/bytedance/gopkg/lang/dirtmake"
	"github.com/bytedance/gopkg/lang/mcache"
)

// RaceBuild is set by the race-tagged file.
var RaceBuild = false

// FineBuild is set by the fine-tagged file of package props: the library was rewritten so
// that every statement is preceded by a scheduling point (cmd/instrument).
var FineBuild = false

// Prop describes one registered property check.
type Prop struct {
	ID           string
	Run          func(c *Ctx)
	QuickRuns    int
	ThoroughRuns int
	// RaceQuick/RaceThorough: number of runs additionally executed in the -race build (0 = none).
	RaceQuick, RaceThorough int
	// FineQuick/FineThorough: runs executed in the statement-level-yield build (0 = none).
	FineQuick, FineThorough int
	Rule                    string            // how cases are generated and what makes one non-trivial
	Components              map[string]string // component -> "real" | "stub: ..."
	Assumptions             []string
	NotInjectable           []string
	// Probes that must be non-zero in a thorough batch (reported if zero).
	Probes []string
}

var Props = map[string]*Prop{}

// Register adds a property check.
func Register(p *Prop) { Props[p.ID] = p }

// AllocCfg is the allocator configuration of a run.
type AllocCfg struct {
	Mode    int // mcache.ModeReal / ModeLedger / ModeFence
	Reuse   int
	Ceiling int
}

var allocNames = []string{"real", "ledger", "fence"}
var reuseNames = []string{"LIFO", "FIFO", "random"}

func (a AllocCfg) String() string {
	return fmt.Sprintf("alloc=%s/%s ceiling=%dMiB", allocNames[a.Mode], reuseNames[a.Reuse], a.Ceiling>>20)
}

var activeCtx *Ctx

// OwnerOverride, when >= 0, is the task id the allocator ledger attributes calls to (the
// co-tenant uses 99).
var OwnerOverride = -1

//go:norace
func currentCtx() *Ctx {
	c := activeCtx
	if c == nil {
		return nil
	}
	if c.Sched != nil {
		if k := c.Sched.Current(); k >= 0 && k < len(c.Sched.tasks) {
			return c.Sched.tasks[k].C
		}
	}
	return c
}

// ForceAlloc (env VERIF_ALLOC=real|ledger|fence) overrides the allocator mode of every run.
var ForceAlloc = -1

// SetupAlloc configures the shim allocator for this run. Must be called at most once per
// run, before any code under test runs.
func (c *Ctx) SetupAlloc(a AllocCfg) {
	if RaceBuild {
		// accesses to mmap'ed memory are outside the race detector's arena and the ledger's
		// bookkeeping would itself need synchronisation: -race runs use the real allocator.
		a.Mode = mcache.ModeReal
	}
	if ForceAlloc >= 0 && !RaceBuild {
		a.Mode = ForceAlloc
	}
	mcache.SimSetMode(a.Mode, a.Reuse)
	dirtmake.SimCeiling = a.Ceiling
	c.Alloc = a
	c.Ev(0x71, uint64(a.Mode), uint64(a.Reuse))
	c.Tracef("cfg  %s", a.String())
	c.Count("cfg.alloc." + allocNames[a.Mode])
}

func installAllocHooks() {
	mcache.SimYield = func(point int) {
		c := activeCtx
		if c == nil || c.Sched == nil {
			return
		}
		p := YMalloc
		if point == mcache.YieldFree {
			p = YFree
		}
		c.Sched.Yield(c.Sched.Current(), p)
	}
	mcache.SimOwner = func() int {
		if OwnerOverride >= 0 {
			return OwnerOverride
		}
		c := activeCtx
		if c == nil || c.Sched == nil {
			return 0
		}
		return c.Sched.Current()
	}
	mcache.SimChoose = func(n int) int {
		c := activeCtx
		if c == nil {
			return 0
		}
		return c.allocStream.Choose(n)
	}
	mcache.SimViolation = func(class, detail string) {
		c := currentCtx()
		site, prop := "?", "?"
		if c != nil {
			site, prop = c.Op, c.Prop
		}
		panic(&Violation{Property: prop, Class: class, Site: site, Facts: F{}, Detail: detail})
	}
	DescribeFault = func(addr uintptr) (string, string) {
		found, id, live, off, guard := mcache.SimDescribe(addr)
		if !found {
			return "", ""
		}
		if guard {
			return "GUARD_PAGE", fmt.Sprintf("access %d bytes outside buffer #%d (live=%v)", off, id, live)
		}
		if !live {
			return "ACCESS_AFTER_FREE", fmt.Sprintf("access to buffer #%d at offset %d after it was recycled", id, off)
		}
		return "", ""
	}
}

// Result of one run.
type Result struct {
	Index    int
	Viol     *Violation
	Hash     uint64
	AbsSig   uint64
	NonTriv  bool
	Events   int64
	Ops      int64
	Counters map[string]int64
	Tape     map[string][]uint32
	Trace    []string
	Sample   []string
	SchedSig uint64 // schedule signature (0 when the run had no scheduler)
	ctx      *Ctx
}

var gcOff = false

// RunOne executes run idx of (prop, seed) — or a recorded tape when rec != nil — and returns
// its result. Every run starts from the same process state: two collections (the second
// empties the sync.Pools' victim caches), allocator shim reset, junk seeds from the run key.
func RunOne(p *Prop, seed int64, idx int, tier string, rec map[string][]uint32, tracing, sample bool) (res *Result) {
	if !gcOff {
		debug.SetGCPercent(-1)
		// safety net: automatic collection stays off inside runs (sync.Pool determinism), but a
		// run that piles up gigabytes of garbage (cut-point enumeration over a case that makes
		// the reader allocate 16 MiB buffers) must not take the worker down
		debug.SetMemoryLimit(3 << 30)
		debug.SetMaxStack(64 << 20)
		debug.SetPanicOnFault(true)
		installAllocHooks()
		gcOff = true
	}
	runtime.GC()
	runtime.GC()
	mcache.SimReset()
	mcache.SimSetMode(mcache.ModeReal, 0)
	var tape *Tape
	if rec != nil {
		tape = NewReplayTape(rec)
	} else {
		tape = NewTape(seed, p.ID, idx)
	}
	c := newCtx(p.ID, seed, idx, tier, tape)
	c.Tracing = tracing
	c.SampleWanted = sample
	c.allocStream = tape.S("alloc")
	junk := mix64(uint64(seed)*31+uint64(idx)) | 1
	mcache.SimJunk = junk
	dirtmake.SimJunk = junk
	dirtmake.SimAllocs = 0
	dirtmake.SimBytes = 0
	dirtmake.SimCeiling = 0
	activeCtx = c
	res = &Result{Index: idx, ctx: c}
	func() {
		defer func() {
			if r := recover(); r != nil {
				switch v := r.(type) {
				case *Violation:
					res.Viol = v
				case schedAbort:
				case runAbort:
				default:
					res.Viol = c.panicViolation(c.Op, r)
				}
			}
		}()
		p.Run(c)
	}()
	activeCtx = nil
	if res.Viol != nil {
		res.Viol.Property = p.ID
		if owners, ok := classOwners[res.Viol.Class]; ok {
			mine := false
			for _, o := range owners {
				if o == p.ID {
					mine = true
				}
			}
			res.Viol.Foreign = !mine
		}
	}
	st := mcache.SimGetStats()
	c.CountN("alloc.mallocs", st.Mallocs)
	c.CountN("alloc.frees", st.Frees)
	c.CountN("alloc.reused", st.Reused)
	c.CountN("alloc.adopted", st.Adopted)
	c.CountN("alloc.cross_task_reuse", st.CrossTaskReuse)
	c.CountN("alloc.poison_checks", st.PoisonChecks)
	if st.Reused > 0 {
		c.NonTriv = true
	}
	res.Hash = c.hash
	if c.Sched != nil {
		res.SchedSig = c.Sched.Sig() | 1
	}
	res.AbsSig = c.absSignature()
	res.NonTriv = c.NonTriv
	res.Events = c.Events
	res.Ops = c.Ops
	res.Counters = c.Counters
	res.Tape = tape.Recorded()
	res.Trace = c.trace
	res.Sample = c.Sample
	return res
}

// ReplayFile is the on-disk form of a violation (Appendix D of DESIGN.md).
type ReplayFile struct {
	Property  string     `json:"property"`
	Seed      int64      `json:"seed"`
	Run       int        `json:"run"`
	Tier      string     `json:"tier"`
	Build     string     `json:"build"`
	Alloc     string     `json:"alloc_override,omitempty"`
	Tape      TapeRec    `json:"tape"` // nil: regenerate from (seed, run)
	Violation *Violation `json:"violation"`
	Trace     []string   `json:"trace"`
	EventHash string     `json:"event_hash"`
	Minimised bool       `json:"minimised"`
	Shrink    int        `json:"shrink_steps"`
	TapeLen   int        `json:"tape_len"`
	OrigLen   int        `json:"tape_len_before_shrinking"`
	Stderr    []string   `json:"stderr_signature,omitempty"`
	Note      string     `json:"note,omitempty"`
	// crash-class violations that need the preceding runs of the same worker process
	ShareOffset int `json:"share_offset,omitempty"`
	ShareStride int `json:"share_stride,omitempty"`
	// NeedsShare: the violation did not show again when its own tape was re-executed in the
	// same process, i.e. it depends on library state that survives from earlier runs of the
	// same worker process (a package-level cache, a pooled object in a particular state).
	// Verification and replay re-execute the worker's share of run indices up to this run.
	NeedsShare bool `json:"needs_share,omitempty"`
}

// tapeLess orders tapes by (total length, sum of values): shrinking only ever accepts a
// strictly smaller tape, so it terminates.
func tapeLess(a, b map[string][]uint32) bool {
	la, lb := tapeLen(a), tapeLen(b)
	if la != lb {
		return la < lb
	}
	var sa, sb uint64
	for _, v := range a {
		for _, x := range v {
			sa += uint64(x)
		}
	}
	for _, v := range b {
		for _, x := range v {
			sb += uint64(x)
		}
	}
	return sa < sb
}

// TapeRec is a recorded multi-stream tape; in JSON every stream is one string of
// space-separated decimal values.
type TapeRec map[string][]uint32

func (t TapeRec) MarshalJSON() ([]byte, error) {
	if t == nil {
		return []byte("null"), nil
	}
	m := map[string]string{}
	for k, v := range t {
		var sb strings.Builder
		for i, x := range v {
			if i > 0 {
				sb.WriteByte(' ')
			}
			sb.WriteString(strconv.FormatUint(uint64(x), 10))
		}
		m[k] = sb.String()
	}
	return json.Marshal(m)
}

func (t *TapeRec) UnmarshalJSON(b []byte) error {
	if string(b) == "null" {
		*t = nil
		return nil
	}
	m := map[string]string{}
	if err := json.Unmarshal(b, &m); err != nil {
		return err
	}
	out := TapeRec{}
	for k, v := range m {
		var vals []uint32
		for _, f := range strings.Fields(v) {
			x, err := strconv.ParseUint(f, 10, 32)
			if err != nil {
				return err
			}
			vals = append(vals, uint32(x))
		}
		out[k] = vals
	}
	*t = out
	return nil
}

func tapeLen(rec map[string][]uint32) int {
	n := 0
	for _, v := range rec {
		n += len(v)
	}
	return n
}

// Shrink minimises a failing tape while the same violation class at the same oracle site
// persists. Passes: per stream (longest first) cut suffixes, delete blocks, zero blocks,
// lower single values. Bounded by wall-clock budget (read only here, never inside a run).
func Shrink(p *Prop, seed int64, idx int, tier string, rec map[string][]uint32, key string, budget time.Duration) (best map[string][]uint32, steps int) {
	deadline := time.Now().Add(budget)
	best = rec
	expired := func() bool { return time.Now().After(deadline) }
	try := func(cand map[string][]uint32) bool {
		if expired() {
			return false
		}
		r := RunOne(p, seed, idx, tier, cand, false, false)
		if r.Viol != nil && r.Viol.Key() == key && tapeLess(r.Tape, best) {
			// keep what the run actually consumed (drops unread tails)
			best = r.Tape
			steps++
			return true
		}
		return false
	}
	clone := func(m map[string][]uint32) map[string][]uint32 {
		o := make(map[string][]uint32, len(m))
		for k, v := range m {
			o[k] = append([]uint32(nil), v...)
		}
		return o
	}
	for round := 0; round < 6 && time.Now().Before(deadline); round++ {
		before := steps
		names := SortedNames(best)
		sort.SliceStable(names, func(i, j int) bool { return len(best[names[i]]) > len(best[names[j]]) })
		for _, name := range names {
			if expired() {
				break
			}
			// 0. drop the whole stream
			if len(best[name]) > 0 {
				cand := clone(best)
				delete(cand, name)
				try(cand)
			}
			// 1. cut suffixes (binary search on length)
			for cut := len(best[name]) / 2; cut >= 1; cut /= 2 {
				for len(best[name]) > cut && !expired() {
					cand := clone(best)
					cand[name] = cand[name][:len(cand[name])-cut]
					if !try(cand) {
						break
					}
				}
			}
			// 2. delete blocks
			for _, bs := range []int{32, 8, 4, 2, 1} {
				for i := 0; i+bs <= len(best[name]) && !expired(); {
					cand := clone(best)
					v := cand[name]
					cand[name] = append(v[:i:i], v[i+bs:]...)
					if !try(cand) {
						i += bs
					}
				}
			}
			// 3. zero / lower values
			for i := 0; i < len(best[name]) && !expired(); i++ {
				v := best[name][i]
				if v == 0 {
					continue
				}
				cand := clone(best)
				cand[name][i] = 0
				if try(cand) {
					continue
				}
				lo, hi := uint32(0), v // lo fails (no violation), hi works
				for hi-lo > 1 && time.Now().Before(deadline) {
					mid := lo + (hi-lo)/2
					cand := clone(best)
					if i >= len(cand[name]) {
						break
					}
					cand[name][i] = mid
					if try(cand) {
						hi = mid
					} else {
						lo = mid
					}
				}
			}
		}
		if steps == before {
			break
		}
	}
	return best, steps
}

// WriteReplay writes a replay file and returns its path.
func WriteReplay(dir string, rf *ReplayFile) (string, error) {
	if err := os.MkdirAll(dir, 0o755); err != nil {
		return "", err
	}
	path := fmt.Sprintf("%s/%s-%d-%d-%s.json", dir, rf.Property, rf.Seed, rf.Run, rf.Build)
	b, err := json.MarshalIndent(rf, "", " ")
	if err != nil {
		return "", err
	}
	return path, os.WriteFile(path, b, 0o644)
}

// ReadReplay loads a replay file.
func ReadReplay(path string) (*ReplayFile, error) {
	b, err := os.ReadFile(path)
	if err != nil {
		return nil, err
	}
	rf := &ReplayFile{}
	return rf, json.Unmarshal(b, rf)
}

// KeyedByte is byte i of the position-dependent content stream with the given key.
func KeyedByte(key uint64, i int) byte {
	x := key + uint64(i>>3)*0x9E3779B97F4A7C15
	x = (x ^ (x >> 30)) * 0xBF58476D1CE4E5B9
	x = (x ^ (x >> 27)) * 0x94D049BB133111EB
	x ^= x >> 31
	return byte(x >> (uint(i&7) * 8))
}

// KeyedBytes returns n bytes of position-dependent content starting at stream offset off.
func KeyedBytes(key uint64, off, n int) []byte {
	b := make([]byte, n)
	FillKeyed(b, key, off)
	return b
}

// FillKeyed fills b with the keyed content for stream offsets off..off+len(b).
func FillKeyed(b []byte, key uint64, off int) {
	i := 0
	for ; i < len(b) && (off+i)&7 != 0; i++ {
		b[i] = KeyedByte(key, off+i)
	}
	for ; i+8 <= len(b); i += 8 {
		x := key + uint64((off+i)>>3)*0x9E3779B97F4A7C15
		x = (x ^ (x >> 30)) * 0xBF58476D1CE4E5B9
		x = (x ^ (x >> 27)) * 0x94D049BB133111EB
		x ^= x >> 31
		*(*uint64)(unsafe.Pointer(&b[i])) = x
	}
	for ; i < len(b); i++ {
		b[i] = KeyedByte(key, off+i)
	}
}
