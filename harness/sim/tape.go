// Package sim is the deterministic simulator: choice tape, simulated io.Reader / io.Writer,
// cooperative seeded scheduler, run context (event log, counters, violations), shrinking,
// replay files and the parent/worker batch driver.
package sim

import (
	"sort"
)

// Tape is the single source of every decision of a run. It consists of named streams so
// that one component's decisions do not shift when another component's length changes.
//
// Generation mode: values come from a PRNG seeded by H(seed, property, run, stream name)
// and are recorded. Replay mode: recorded values are fed back; a stream that runs out
// yields 0 forever and an out-of-range value is reduced modulo n. Convention: 0 is always
// the simplest alternative (no fault, smallest size, "stay on the current task", "stop").
type Tape struct {
	base     uint64
	replay   bool
	prefix   string
	streams  map[string]*Stream
	in       map[string][]uint32 // replay input (full names), shared with children
	children []*Tape
}

// Stream is one named decision stream.
type Stream struct {
	name string
	x    uint64 // splitmix64 state
	rec  []uint32
	in   []uint32
	pos  int
	rep  bool
}

func mix64(z uint64) uint64 {
	z += 0x9E3779B97F4A7C15
	z = (z ^ (z >> 30)) * 0xBF58476D1CE4E5B9
	z = (z ^ (z >> 27)) * 0x94D049BB133111EB
	return z ^ (z >> 31)
}

func hashString(s string) uint64 {
	h := uint64(0xcbf29ce484222325)
	for i := 0; i < len(s); i++ {
		h ^= uint64(s[i])
		h *= 0x100000001b3
	}
	return h
}

// NewTape creates a generation-mode tape for (seed, property, run).
func NewTape(seed int64, prop string, run int) *Tape {
	b := mix64(uint64(seed)) ^ mix64(hashString(prop)*31+uint64(run)*0x9E3779B97F4A7C15)
	return &Tape{base: mix64(b), streams: map[string]*Stream{}}
}

// NewReplayTape creates a replay-mode tape from recorded streams.
func NewReplayTape(rec map[string][]uint32) *Tape {
	return &Tape{replay: true, streams: map[string]*Stream{}, in: rec}
}

// Sub returns a child tape whose stream names are prefixed. A child is used by exactly
// one task goroutine, so concurrent tasks never share a map (race-detector hygiene) and a
// task's decisions do not depend on other tasks' stream usage. Call from the parent
// goroutine before the task starts.
func (t *Tape) Sub(prefix string) *Tape {
	c := &Tape{base: t.base, replay: t.replay, prefix: t.prefix + prefix, streams: map[string]*Stream{}, in: t.in}
	t.children = append(t.children, c)
	return c
}

// S returns the stream with the given name, creating it on first use.
func (t *Tape) S(name string) *Stream {
	if s, ok := t.streams[name]; ok {
		return s
	}
	full := t.prefix + name
	s := &Stream{name: full, rep: t.replay}
	if t.replay {
		s.in = t.in[full]
	} else {
		s.x = mix64(t.base ^ hashString(full))
	}
	t.streams[name] = s
	return s
}

// Recorded returns the values consumed so far per stream (what a replay needs). Call
// after all tasks have finished.
func (t *Tape) Recorded() map[string][]uint32 {
	out := map[string][]uint32{}
	t.collect(out)
	return out
}

func (t *Tape) collect(out map[string][]uint32) {
	for _, s := range t.streams {
		if len(s.rec) > 0 {
			out[s.name] = append([]uint32(nil), s.rec...)
		}
	}
	for _, c := range t.children {
		c.collect(out)
	}
}

// SortedNames returns the keys of a recorded tape in sorted order.
func SortedNames(rec map[string][]uint32) []string {
	var names []string
	for k := range rec {
		names = append(names, k)
	}
	sort.Strings(names)
	return names
}

func (s *Stream) next() uint64 {
	s.x += 0x9E3779B97F4A7C15
	z := s.x
	z = (z ^ (z >> 30)) * 0xBF58476D1CE4E5B9
	z = (z ^ (z >> 27)) * 0x94D049BB133111EB
	return z ^ (z >> 31)
}

// Choose returns a value in [0,n). n<=1 returns 0 without consuming the tape.
//
//go:norace
func (s *Stream) Choose(n int) int {
	if n <= 1 {
		return 0
	}
	var v uint32
	if s.rep {
		if s.pos < len(s.in) {
			v = s.in[s.pos]
			s.pos++
			if int(v) >= n {
				v = uint32(int(v) % n)
			}
		}
	} else {
		v = uint32(s.next() % uint64(n))
	}
	s.rec = append(s.rec, v)
	return int(v)
}

// Chance is true with probability num/den; the tape value 0 means false.
//
//go:norace
func (s *Stream) Chance(num, den int) bool {
	return s.Choose(den) >= den-num
}

// Range returns a value in [lo,hi] (inclusive); lo is the simplest.
//
//go:norace
func (s *Stream) Range(lo, hi int) int {
	if hi <= lo {
		return lo
	}
	return lo + s.Choose(hi-lo+1)
}

// Pick returns an index in [0,len(weights)) with the given integer weights; index 0 is
// the simplest. Consumes one tape value in [0,len(weights)*K) so shrinking to 0 picks 0.
//
//go:norace
func (s *Stream) Pick(weights ...int) int {
	total := 0
	for _, w := range weights {
		total += w
	}
	if total <= 0 {
		return 0
	}
	v := s.Choose(total)
	for i, w := range weights {
		if v < w {
			return i
		}
		v -= w
	}
	return len(weights) - 1
}

// Byte returns a byte.
//
//go:norace
func (s *Stream) Byte() byte { return byte(s.Choose(256)) }

// Uint64 returns 64 bits drawn as four 16-bit choices.
//
//go:norace
func (s *Stream) Uint64() uint64 {
	var v uint64
	for i := 0; i < 4; i++ {
		v = v<<16 | uint64(s.Choose(65536))
	}
	return v
}
