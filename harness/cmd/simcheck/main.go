// simcheck is the deterministic-simulation check driver (parent, worker, replay, self-test).
package main

import (
	_ "verif/harness/props"
	"verif/harness/sim"
)

func main() { sim.Main() }
