// instrument rewrites a scratch copy of the library so that every statement is preceded by
// a scheduling point:
//
//	simhook.Yield()
//
// where simhook is a tiny package added to the copy (github.com/cloudwego/gopkg/simhook). With
// the hook unset the code behaves exactly as before; the fine-grained build of the harness
// sets it to the seeded scheduler's yield, which makes interleavings *inside* library calls
// (between two atomic operations, between a check and the act that depends on it) part of the
// schedule space. The rewriting is purely syntactic (go/ast), never touches /repo itself, and
// works for whatever the working tree contains at check time.
//
// usage: instrument <dir>   (dir = scratch copy of the repository root, rewritten in place)
package main

import (
	"bytes"
	"fmt"
	"go/ast"
	"go/format"
	"go/parser"
	"go/printer"
	"go/token"
	"os"
	"path/filepath"
	"strings"
)

const hookPkg = "github.com/cloudwego/gopkg/simhook"

const hookSrc = `// Package simhook exists only in the instrumented scratch copy built by /verif.
package simhook

// Fn, when set, is called before every statement of the library.
var Fn func()

// SeedBase and SeedCounter make the string-map hash seeds a function of the simulated run
// (see internal/hash/maphash in this copy): with statement-level scheduling points the length
// of a collision chain changes the number of yields, so the seed has to be under the
// simulator's control like every other source of randomness.
var (
	SeedBase    uint64
	SeedCounter uint64
)

// Yield is the scheduling point inserted before every statement.
func Yield() {
	if f := Fn; f != nil {
		f()
	}
}
`

// maphashSrc replaces internal/hash/maphash (a thin wrapper over the runtime-seeded std
// hash/maphash) in the instrumented copy by a keyed hash whose seeds the simulator controls.
const maphashSrc = `// Simulation stub written by /verif/harness/cmd/instrument: same API as the original wrapper.
package maphash

import "github.com/cloudwego/gopkg/simhook"

// Seed ...
type Seed struct{ s uint64 }

func mix(z uint64) uint64 {
	z += 0x9E3779B97F4A7C15
	z = (z ^ (z >> 30)) * 0xBF58476D1CE4E5B9
	z = (z ^ (z >> 27)) * 0x94D049BB133111EB
	return z ^ (z >> 31)
}

// MakeSeed ...
func MakeSeed() Seed {
	simhook.SeedCounter++
	return Seed{mix(simhook.SeedBase+simhook.SeedCounter) | 1}
}

// Bytes ...
func Bytes(seed Seed, b []byte) uint64 {
	h := seed.s
	for _, c := range b {
		h = (h ^ uint64(c)) * 0x100000001b3
	}
	return mix(h ^ uint64(len(b)))
}

// String ...
func String(seed Seed, s string) uint64 {
	h := seed.s
	for i := 0; i < len(s); i++ {
		h = (h ^ uint64(s[i])) * 0x100000001b3
	}
	return mix(h ^ uint64(len(s)))
}
`

func yieldStmt() ast.Stmt {
	return &ast.ExprStmt{X: &ast.CallExpr{Fun: &ast.SelectorExpr{X: ast.NewIdent("simhook"), Sel: ast.NewIdent("Yield")}}}
}

func instrumentList(list []ast.Stmt) []ast.Stmt {
	out := make([]ast.Stmt, 0, 2*len(list))
	for _, s := range list {
		_, isDecl := s.(*ast.DeclStmt)
		_, isLabel := s.(*ast.LabeledStmt)
		_, isCase := s.(*ast.CaseClause)
		_, isComm := s.(*ast.CommClause)
		if !isDecl && !isLabel && !isCase && !isComm {
			out = append(out, yieldStmt())
		}
		out = append(out, s)
	}
	return out
}

func main() {
	if len(os.Args) != 2 {
		fmt.Fprintln(os.Stderr, "usage: instrument <dir>")
		os.Exit(2)
	}
	root := os.Args[1]
	files, stmts := 0, 0
	err := filepath.Walk(root, func(path string, info os.FileInfo, err error) error {
		if err != nil {
			return err
		}
		if info.IsDir() {
			name := info.Name()
			if name == ".git" || name == "simhook" || name == "testdata" || name == "maphash" {
				return filepath.SkipDir
			}
			return nil
		}
		if !strings.HasSuffix(path, ".go") || strings.HasSuffix(path, "_test.go") {
			return nil
		}
		fset := token.NewFileSet()
		f, err := parser.ParseFile(fset, path, nil, parser.ParseComments)
		if err != nil {
			return fmt.Errorf("%s: %v", path, err)
		}
		// Keep only the comments before the package clause (build constraints, licence):
		// position-less inserted statements and free-floating comments do not mix in go/printer.
		// Directive comments inside a file (//go:linkname, //go:noinline, ...) would be lost, so
		// such files are left uninstrumented.
		var head []*ast.CommentGroup
		skip := false
		for _, cg := range f.Comments {
			if cg.End() < f.Package {
				head = append(head, cg)
				continue
			}
			for _, c := range cg.List {
				if strings.HasPrefix(c.Text, "//go:") {
					skip = true
				}
			}
		}
		if skip {
			fmt.Printf("left uninstrumented (compiler directive inside): %s\n", path)
			return nil
		}
		f.Comments = head
		ast.Inspect(f, func(n ast.Node) bool {
			switch d := n.(type) {
			case *ast.FuncDecl:
				d.Doc = nil
			case *ast.GenDecl:
				d.Doc = nil
			case *ast.Field:
				d.Doc, d.Comment = nil, nil
			case *ast.ValueSpec:
				d.Doc, d.Comment = nil, nil
			case *ast.TypeSpec:
				d.Doc, d.Comment = nil, nil
			case *ast.ImportSpec:
				d.Doc, d.Comment = nil, nil
			}
			return true
		})
		changed := false
		ast.Inspect(f, func(n ast.Node) bool {
			switch b := n.(type) {
			case *ast.BlockStmt:
				if len(b.List) > 0 {
					stmts += len(b.List)
					b.List = instrumentList(b.List)
					changed = true
				}
			case *ast.CaseClause:
				if len(b.Body) > 0 {
					stmts += len(b.Body)
					b.Body = instrumentList(b.Body)
					changed = true
				}
			case *ast.CommClause:
				if len(b.Body) > 0 {
					stmts += len(b.Body)
					b.Body = instrumentList(b.Body)
					changed = true
				}
			}
			return true
		})
		if !changed {
			return nil
		}
		// add the import
		imp := &ast.ImportSpec{Path: &ast.BasicLit{Kind: token.STRING, Value: fmt.Sprintf("%q", hookPkg)}}
		decl := &ast.GenDecl{Tok: token.IMPORT, Specs: []ast.Spec{imp}}
		f.Decls = append([]ast.Decl{decl}, f.Decls...)
		f.Imports = append(f.Imports, imp)
		var buf bytes.Buffer
		if err := format.Node(&buf, fset, f); err != nil {
			var raw bytes.Buffer
			printer.Fprint(&raw, fset, f)
			os.WriteFile(path+".broken", raw.Bytes(), 0o644)
			return fmt.Errorf("%s: %v", path, err)
		}
		files++
		return os.WriteFile(path, buf.Bytes(), 0o644)
	})
	if err != nil {
		fmt.Fprintln(os.Stderr, "instrument:", err)
		os.Exit(2)
	}
	if err := os.MkdirAll(filepath.Join(root, "simhook"), 0o755); err != nil {
		fmt.Fprintln(os.Stderr, "instrument:", err)
		os.Exit(2)
	}
	if err := os.WriteFile(filepath.Join(root, "simhook", "simhook.go"), []byte(hookSrc), 0o644); err != nil {
		fmt.Fprintln(os.Stderr, "instrument:", err)
		os.Exit(2)
	}
	// the hash-seed seam
	mh := filepath.Join(root, "internal", "hash", "maphash")
	if _, err := os.Stat(mh); err == nil {
		old, _ := filepath.Glob(filepath.Join(mh, "*.go"))
		for _, f := range old {
			os.Remove(f)
		}
		if err := os.WriteFile(filepath.Join(mh, "maphash.go"), []byte(maphashSrc), 0o644); err != nil {
			fmt.Fprintln(os.Stderr, "instrument:", err)
			os.Exit(2)
		}
		fmt.Println("replaced internal/hash/maphash by the simulator-seeded stub")
	}
	fmt.Printf("instrumented %d files, %d statements\n", files, stmts)
}
