// instrument rewrites a scratch copy of the library so that every statement is preceded by
// a scheduling point:
//
//	simhook.Yield()
//
// where simhook is a tiny package added to the copy (github.com/cloudwego/gopkg/simhook). With
// the hook unset the code behaves exactly as before; the fine-grained build of the harness
// sets it to the seeded scheduler's yield, which makes interleavings *inside* library calls
// (between two atomic operations, between a check and the act that depends on it) part of the
// schedule space. The rewriting is purely syntactic (go/ast), never touches /repo itself, and
// works for whatever the working tree contains at check time.
//
// usage: instrument <dir>   (dir = scratch copy of the repository root, rewritten in place)
package main

import (
	"bytes"
	"fmt"
	"go/ast"
	"go/format"
	"go/parser"
	"go/printer"
	"go/token"
	"os"
	"path/filepath"
	"strings"
)

const hookPkg = "github.com/cloudwego/gopkg/simhook"

const hookSrc = `// Package simhook exists only in the instrumented scratch copy built by /verif.
package simhook

import (
	"sync/atomic"
	"unsafe"
)

// Every call of a sync/atomic function in the library is routed through these wrappers, which
// are scheduling points of their own: the window between two atomic operations of ONE
// statement (Store(&x, Load(&x)&^bit)) becomes part of the schedule space too.
func AtomicLoadInt32(addr *int32) int32 { YieldAtomic(); return atomic.LoadInt32(addr) }
func AtomicStoreInt32(addr *int32, v int32) { YieldAtomic(); atomic.StoreInt32(addr, v) }
func AtomicAddInt32(addr *int32, d int32) int32 { YieldAtomic(); return atomic.AddInt32(addr, d) }
func AtomicSwapInt32(addr *int32, v int32) int32 { YieldAtomic(); return atomic.SwapInt32(addr, v) }
func AtomicCompareAndSwapInt32(addr *int32, o, n int32) bool { YieldAtomic(); return atomic.CompareAndSwapInt32(addr, o, n) }
func AtomicLoadInt64(addr *int64) int64 { YieldAtomic(); return atomic.LoadInt64(addr) }
func AtomicStoreInt64(addr *int64, v int64) { YieldAtomic(); atomic.StoreInt64(addr, v) }
func AtomicAddInt64(addr *int64, d int64) int64 { YieldAtomic(); return atomic.AddInt64(addr, d) }
func AtomicSwapInt64(addr *int64, v int64) int64 { YieldAtomic(); return atomic.SwapInt64(addr, v) }
func AtomicCompareAndSwapInt64(addr *int64, o, n int64) bool { YieldAtomic(); return atomic.CompareAndSwapInt64(addr, o, n) }
func AtomicLoadUint32(addr *uint32) uint32 { YieldAtomic(); return atomic.LoadUint32(addr) }
func AtomicStoreUint32(addr *uint32, v uint32) { YieldAtomic(); atomic.StoreUint32(addr, v) }
func AtomicAddUint32(addr *uint32, d uint32) uint32 { YieldAtomic(); return atomic.AddUint32(addr, d) }
func AtomicSwapUint32(addr *uint32, v uint32) uint32 { YieldAtomic(); return atomic.SwapUint32(addr, v) }
func AtomicCompareAndSwapUint32(addr *uint32, o, n uint32) bool { YieldAtomic(); return atomic.CompareAndSwapUint32(addr, o, n) }
func AtomicLoadUint64(addr *uint64) uint64 { YieldAtomic(); return atomic.LoadUint64(addr) }
func AtomicStoreUint64(addr *uint64, v uint64) { YieldAtomic(); atomic.StoreUint64(addr, v) }
func AtomicAddUint64(addr *uint64, d uint64) uint64 { YieldAtomic(); return atomic.AddUint64(addr, d) }
func AtomicSwapUint64(addr *uint64, v uint64) uint64 { YieldAtomic(); return atomic.SwapUint64(addr, v) }
func AtomicCompareAndSwapUint64(addr *uint64, o, n uint64) bool { YieldAtomic(); return atomic.CompareAndSwapUint64(addr, o, n) }
func AtomicLoadUintptr(addr *uintptr) uintptr { YieldAtomic(); return atomic.LoadUintptr(addr) }
func AtomicStoreUintptr(addr *uintptr, v uintptr) { YieldAtomic(); atomic.StoreUintptr(addr, v) }
func AtomicAddUintptr(addr *uintptr, d uintptr) uintptr { YieldAtomic(); return atomic.AddUintptr(addr, d) }
func AtomicSwapUintptr(addr *uintptr, v uintptr) uintptr { YieldAtomic(); return atomic.SwapUintptr(addr, v) }
func AtomicCompareAndSwapUintptr(addr *uintptr, o, n uintptr) bool { YieldAtomic(); return atomic.CompareAndSwapUintptr(addr, o, n) }
func AtomicLoadPointer(addr *unsafe.Pointer) unsafe.Pointer { YieldAtomic(); return atomic.LoadPointer(addr) }
func AtomicStorePointer(addr *unsafe.Pointer, v unsafe.Pointer) { YieldAtomic(); atomic.StorePointer(addr, v) }
func AtomicSwapPointer(addr *unsafe.Pointer, v unsafe.Pointer) unsafe.Pointer { YieldAtomic(); return atomic.SwapPointer(addr, v) }
func AtomicCompareAndSwapPointer(addr *unsafe.Pointer, o, n unsafe.Pointer) bool { YieldAtomic(); return atomic.CompareAndSwapPointer(addr, o, n) }

// Fn, when set, is called before every statement of the library (kind 0) and before every
// sync/atomic operation (kind 1).
var Fn func(kind int)

// SeedBase and SeedCounter make the string-map hash seeds a function of the simulated run
// (see internal/hash/maphash in this copy): with statement-level scheduling points the length
// of a collision chain changes the number of yields, so the seed has to be under the
// simulator's control like every other source of randomness.
var (
	SeedBase    uint64
	SeedCounter uint64
)

// Yield is the scheduling point inserted before every statement.
func Yield() {
	if f := Fn; f != nil {
		f(0)
	}
}

// YieldAtomic is the scheduling point in front of a sync/atomic operation.
func YieldAtomic() {
	if f := Fn; f != nil {
		f(1)
	}
}
`

// maphashSrc replaces internal/hash/maphash (a thin wrapper over the runtime-seeded std
// hash/maphash) in the instrumented copy by a keyed hash whose seeds the simulator controls.
const maphashSrc = `// Simulation stub written by /verif/harness/cmd/instrument: same API as the original wrapper.
package maphash

import "github.com/cloudwego/gopkg/simhook"

// Seed ...
type Seed struct{ s uint64 }

func mix(z uint64) uint64 {
	z += 0x9E3779B97F4A7C15
	z = (z ^ (z >> 30)) * 0xBF58476D1CE4E5B9
	z = (z ^ (z >> 27)) * 0x94D049BB133111EB
	return z ^ (z >> 31)
}

// MakeSeed ...
func MakeSeed() Seed {
	simhook.SeedCounter++
	return Seed{mix(simhook.SeedBase+simhook.SeedCounter) | 1}
}

// Bytes ...
func Bytes(seed Seed, b []byte) uint64 {
	h := seed.s
	for _, c := range b {
		h = (h ^ uint64(c)) * 0x100000001b3
	}
	return mix(h ^ uint64(len(b)))
}

// String ...
func String(seed Seed, s string) uint64 {
	h := seed.s
	for i := 0; i < len(s); i++ {
		h = (h ^ uint64(s[i])) * 0x100000001b3
	}
	return mix(h ^ uint64(len(s)))
}
`

var wrapped = map[string]bool{}
var atomics = 0

func init() {
	for _, t := range []string{"Int32", "Int64", "Uint32", "Uint64", "Uintptr", "Pointer"} {
		for _, op := range []string{"Load", "Store", "Add", "Swap", "CompareAndSwap"} {
			if t == "Pointer" && op == "Add" {
				continue
			}
			wrapped[op+t] = true
		}
	}
}

func yieldStmt() ast.Stmt {
	return &ast.ExprStmt{X: &ast.CallExpr{Fun: &ast.SelectorExpr{X: ast.NewIdent("simhook"), Sel: ast.NewIdent("Yield")}}}
}

func instrumentList(list []ast.Stmt) []ast.Stmt {
	out := make([]ast.Stmt, 0, 2*len(list))
	for _, s := range list {
		_, isDecl := s.(*ast.DeclStmt)
		_, isLabel := s.(*ast.LabeledStmt)
		_, isCase := s.(*ast.CaseClause)
		_, isComm := s.(*ast.CommClause)
		if !isDecl && !isLabel && !isCase && !isComm {
			out = append(out, yieldStmt())
		}
		out = append(out, s)
	}
	return out
}

func main() {
	if len(os.Args) != 2 {
		fmt.Fprintln(os.Stderr, "usage: instrument <dir>")
		os.Exit(2)
	}
	root := os.Args[1]
	files, stmts := 0, 0
	err := filepath.Walk(root, func(path string, info os.FileInfo, err error) error {
		if err != nil {
			return err
		}
		if info.IsDir() {
			name := info.Name()
			if name == ".git" || name == "simhook" || name == "testdata" || name == "maphash" {
				return filepath.SkipDir
			}
			return nil
		}
		if !strings.HasSuffix(path, ".go") || strings.HasSuffix(path, "_test.go") {
			return nil
		}
		fset := token.NewFileSet()
		f, err := parser.ParseFile(fset, path, nil, parser.ParseComments)
		if err != nil {
			return fmt.Errorf("%s: %v", path, err)
		}
		// Keep only the comments before the package clause (build constraints, licence):
		// position-less inserted statements and free-floating comments do not mix in go/printer.
		// Directive comments inside a file (//go:linkname, //go:noinline, ...) would be lost, so
		// such files are left uninstrumented.
		var head []*ast.CommentGroup
		skip := false
		for _, cg := range f.Comments {
			if cg.End() < f.Package {
				head = append(head, cg)
				continue
			}
			for _, c := range cg.List {
				if strings.HasPrefix(c.Text, "//go:") {
					skip = true
				}
			}
		}
		if skip {
			fmt.Printf("left uninstrumented (compiler directive inside): %s\n", path)
			return nil
		}
		f.Comments = head
		ast.Inspect(f, func(n ast.Node) bool {
			switch d := n.(type) {
			case *ast.FuncDecl:
				d.Doc = nil
			case *ast.GenDecl:
				d.Doc = nil
			case *ast.Field:
				d.Doc, d.Comment = nil, nil
			case *ast.ValueSpec:
				d.Doc, d.Comment = nil, nil
			case *ast.TypeSpec:
				d.Doc, d.Comment = nil, nil
			case *ast.ImportSpec:
				d.Doc, d.Comment = nil, nil
			}
			return true
		})
		changed := false
		// sync/atomic function calls -> simhook wrappers
		atomicName := ""
		for _, im := range f.Imports {
			if im.Path.Value == `"sync/atomic"` {
				atomicName = "atomic"
				if im.Name != nil {
					atomicName = im.Name.Name
				}
			}
		}
		atomicLeft := 0
		if atomicName != "" {
			ast.Inspect(f, func(n ast.Node) bool {
				sel, ok := n.(*ast.SelectorExpr)
				if !ok {
					return true
				}
				id, ok := sel.X.(*ast.Ident)
				if !ok || id.Name != atomicName || id.Obj != nil {
					return true
				}
				if wrapped[sel.Sel.Name] {
					id.Name = "simhook"
					sel.Sel.Name = "Atomic" + sel.Sel.Name
					changed = true
					atomics++
				} else {
					atomicLeft++
				}
				return true
			})
			if atomicLeft == 0 {
				// drop the now unused import
				for _, d := range f.Decls {
					gd, ok := d.(*ast.GenDecl)
					if !ok || gd.Tok != token.IMPORT {
						continue
					}
					var keep []ast.Spec
					for _, sp := range gd.Specs {
						if sp.(*ast.ImportSpec).Path.Value != `"sync/atomic"` {
							keep = append(keep, sp)
						}
					}
					gd.Specs = keep
				}
				var decls []ast.Decl
				for _, d := range f.Decls {
					if gd, ok := d.(*ast.GenDecl); ok && gd.Tok == token.IMPORT && len(gd.Specs) == 0 {
						continue
					}
					decls = append(decls, d)
				}
				f.Decls = decls
			}
		}
		ast.Inspect(f, func(n ast.Node) bool {
			switch b := n.(type) {
			case *ast.BlockStmt:
				if len(b.List) > 0 {
					stmts += len(b.List)
					b.List = instrumentList(b.List)
					changed = true
				}
			case *ast.CaseClause:
				if len(b.Body) > 0 {
					stmts += len(b.Body)
					b.Body = instrumentList(b.Body)
					changed = true
				}
			case *ast.CommClause:
				if len(b.Body) > 0 {
					stmts += len(b.Body)
					b.Body = instrumentList(b.Body)
					changed = true
				}
			}
			return true
		})
		if !changed {
			return nil
		}
		// add the import
		imp := &ast.ImportSpec{Path: &ast.BasicLit{Kind: token.STRING, Value: fmt.Sprintf("%q", hookPkg)}}
		decl := &ast.GenDecl{Tok: token.IMPORT, Specs: []ast.Spec{imp}}
		f.Decls = append([]ast.Decl{decl}, f.Decls...)
		f.Imports = append(f.Imports, imp)
		var buf bytes.Buffer
		if err := format.Node(&buf, fset, f); err != nil {
			var raw bytes.Buffer
			printer.Fprint(&raw, fset, f)
			os.WriteFile(path+".broken", raw.Bytes(), 0o644)
			return fmt.Errorf("%s: %v", path, err)
		}
		files++
		return os.WriteFile(path, buf.Bytes(), 0o644)
	})
	if err != nil {
		fmt.Fprintln(os.Stderr, "instrument:", err)
		os.Exit(2)
	}
	if err := os.MkdirAll(filepath.Join(root, "simhook"), 0o755); err != nil {
		fmt.Fprintln(os.Stderr, "instrument:", err)
		os.Exit(2)
	}
	if err := os.WriteFile(filepath.Join(root, "simhook", "simhook.go"), []byte(hookSrc), 0o644); err != nil {
		fmt.Fprintln(os.Stderr, "instrument:", err)
		os.Exit(2)
	}
	// the hash-seed seam
	mh := filepath.Join(root, "internal", "hash", "maphash")
	if _, err := os.Stat(mh); err == nil {
		old, _ := filepath.Glob(filepath.Join(mh, "*.go"))
		for _, f := range old {
			os.Remove(f)
		}
		if err := os.WriteFile(filepath.Join(mh, "maphash.go"), []byte(maphashSrc), 0o644); err != nil {
			fmt.Fprintln(os.Stderr, "instrument:", err)
			os.Exit(2)
		}
		fmt.Println("replaced internal/hash/maphash by the simulator-seeded stub")
	}
	fmt.Printf("instrumented %d files, %d statements, %d sync/atomic calls\n", files, stmts, atomics)
}
