// Package ref holds the independent reference models: a Thrift Binary value-tree encoder
// and recursive-descent (iterative, explicit stack) parser with depth accounting and cause
// classification, the message envelope codec, and the TTHeader frame builder/parser. They
// are written from the wire descriptions (DESIGN.md appendices A and B) and share no code or
// constants with /repo.
package ref

import (
	"math"
)

// Thrift Binary type tags (wire values).
const (
	TStop   = 0
	TBool   = 2
	TByte   = 3
	TDouble = 4
	TI16    = 6
	TI32    = 8
	TI64    = 10
	TString = 11
	TStruct = 12
	TMap    = 13
	TSet    = 14
	TList   = 15
)

// AllTypes lists the 11 value types.
var AllTypes = []byte{TBool, TByte, TDouble, TI16, TI32, TI64, TString, TStruct, TMap, TSet, TList}

// FixedSize returns the encoded size of a fixed-size type, 0 otherwise.
func FixedSize(t byte) int {
	switch t {
	case TBool, TByte:
		return 1
	case TI16:
		return 2
	case TI32:
		return 4
	case TI64, TDouble:
		return 8
	}
	return 0
}

// Known reports whether t is a value type of the grammar.
func Known(t byte) bool {
	switch t {
	case TBool, TByte, TDouble, TI16, TI32, TI64, TString, TStruct, TMap, TSet, TList:
		return true
	}
	return false
}

func IsContainer(t byte) bool { return t == TStruct || t == TMap || t == TSet || t == TList }

// Field of a struct.
type Field struct {
	ID int16
	V  *Value
}

// Value is a typed Thrift value tree.
type Value struct {
	T      byte
	Bits   uint64 // scalars: raw bits (bool: 0/1, byte, i16, i32, i64, double)
	Bin    []byte // string/binary
	Fields []Field
	KT, VT byte     // map
	ET     byte     // list/set
	Elems  []*Value // list/set elements; map: k0,v0,k1,v1,...
}

// Mark is a structural byte range of an encoding (for the fault transport).
type Mark struct {
	Off, Len int
	Kind     int
}

// Mark kinds.
const (
	MTypeTag = iota
	MSize    // 4-byte container size or string length
	MFieldID
	MScalar
	MPayload
)

// Encoder appends the Thrift Binary encoding and records the layout.
type Encoder struct {
	Buf   []byte
	Marks []Mark
	Lay   bool
}

func (e *Encoder) mark(n, kind int) {
	if e.Lay {
		e.Marks = append(e.Marks, Mark{len(e.Buf), n, kind})
	}
}

func (e *Encoder) u8(v byte) { e.Buf = append(e.Buf, v) }
func (e *Encoder) u16(v uint16) {
	e.Buf = append(e.Buf, byte(v>>8), byte(v))
}
func (e *Encoder) u32(v uint32) {
	e.Buf = append(e.Buf, byte(v>>24), byte(v>>16), byte(v>>8), byte(v))
}
func (e *Encoder) u64(v uint64) {
	e.u32(uint32(v >> 32))
	e.u32(uint32(v))
}

// Value appends the encoding of v (without a leading type tag).
func (e *Encoder) Value(v *Value) {
	switch v.T {
	case TBool, TByte:
		e.mark(1, MScalar)
		e.u8(byte(v.Bits))
	case TI16:
		e.mark(2, MScalar)
		e.u16(uint16(v.Bits))
	case TI32:
		e.mark(4, MScalar)
		e.u32(uint32(v.Bits))
	case TI64, TDouble:
		e.mark(8, MScalar)
		e.u64(v.Bits)
	case TString:
		e.mark(4, MSize)
		e.u32(uint32(len(v.Bin)))
		e.mark(len(v.Bin), MPayload)
		e.Buf = append(e.Buf, v.Bin...)
	case TStruct:
		for _, f := range v.Fields {
			e.mark(1, MTypeTag)
			e.u8(f.V.T)
			e.mark(2, MFieldID)
			e.u16(uint16(f.ID))
			e.Value(f.V)
		}
		e.mark(1, MTypeTag)
		e.u8(TStop)
	case TMap:
		e.mark(1, MTypeTag)
		e.u8(v.KT)
		e.mark(1, MTypeTag)
		e.u8(v.VT)
		e.mark(4, MSize)
		e.u32(uint32(len(v.Elems) / 2))
		for _, x := range v.Elems {
			e.Value(x)
		}
	case TSet, TList:
		e.mark(1, MTypeTag)
		e.u8(v.ET)
		e.mark(4, MSize)
		e.u32(uint32(len(v.Elems)))
		for _, x := range v.Elems {
			e.Value(x)
		}
	}
}

// Encode returns the encoding of v.
func Encode(v *Value) []byte {
	e := &Encoder{}
	e.Value(v)
	return e.Buf
}

// EncodedLen computes the encoded length independently of Encode.
func EncodedLen(v *Value) int {
	switch v.T {
	case TString:
		return 4 + len(v.Bin)
	case TStruct:
		n := 1
		for _, f := range v.Fields {
			n += 3 + EncodedLen(f.V)
		}
		return n
	case TMap:
		n := 6
		for _, x := range v.Elems {
			n += EncodedLen(x)
		}
		return n
	case TSet, TList:
		n := 5
		for _, x := range v.Elems {
			n += EncodedLen(x)
		}
		return n
	}
	return FixedSize(v.T)
}

// Depth returns the maximum number of nested containers on any path (a top-level container
// is depth 1, a scalar is depth 0).
func Depth(v *Value) int {
	if !IsContainer(v.T) {
		return 0
	}
	d := 0
	for _, f := range v.Fields {
		if x := Depth(f.V); x > d {
			d = x
		}
	}
	for _, x := range v.Elems {
		if y := Depth(x); y > d {
			d = y
		}
	}
	return d + 1
}

// Verdict kinds.
const (
	OK = iota
	Truncated
	Negative
	Unknown
)

var KindNames = []string{"OK", "TRUNCATED", "NEGATIVE", "UNKNOWN"}

// Verdict is the reference parser's judgement of (bytes, type).
type Verdict struct {
	Kind     int
	Len      int  // OK: encoded length
	Depth    int  // OK: max container depth; otherwise: container depth of the failing node
	MaxDepth int  // deepest container entered before the verdict was reached
	At       int  // offset of the failure
	Tag      byte // UNKNOWN: the tag
	DontCare bool // an unknown element/key/value tag of an empty container was met (accept or reject both fine)
	// BigDeclared is the largest positive byte count any header on the walked path declared
	// (string length; element count x fixed element size, or the bare count for variable-size
	// elements): what a skipper that buffers what it skips may try to allocate.
	BigDeclared int64
}

type frame struct {
	kind   byte // TStruct, TMap, TSet/TList
	remain int64
	kt, vt byte
	onVal  bool
}

// Parse walks the delivered bytes as one value of type t and returns the first of
// OK / TRUNCATED / NEGATIVE / UNKNOWN. It never limits depth itself and never allocates a
// declared size.
func Parse(b []byte, t byte) Verdict {
	pos := 0
	var stack []frame
	maxDepth := 0
	dontCare := false
	var big int64
	declare := func(n int64) {
		if n > big {
			big = n
		}
	}
	fail := func(kind int, at int, tag byte) Verdict {
		return Verdict{Kind: kind, At: at, Tag: tag, Depth: len(stack), MaxDepth: maxDepth, DontCare: dontCare, BigDeclared: big}
	}
	need := func(n int) bool { return len(b)-pos >= n }
	u32 := func(p int) uint32 {
		return uint32(b[p])<<24 | uint32(b[p+1])<<16 | uint32(b[p+2])<<8 | uint32(b[p+3])
	}
	// begin parses the header of a value of type t at pos; containers push a frame.
	begin := func(t byte) *Verdict {
		switch t {
		case TBool, TByte, TI16, TI32, TI64, TDouble:
			n := FixedSize(t)
			if !need(n) {
				v := fail(Truncated, pos, 0)
				return &v
			}
			pos += n
		case TString:
			if !need(4) {
				v := fail(Truncated, pos, 0)
				return &v
			}
			n := int32(u32(pos))
			if n < 0 {
				v := fail(Negative, pos, 0)
				return &v
			}
			pos += 4
			declare(int64(n))
			if !need(int(n)) {
				v := fail(Truncated, pos, 0)
				return &v
			}
			pos += int(n)
		case TStruct:
			stack = append(stack, frame{kind: TStruct})
		case TMap:
			stack = append(stack, frame{kind: TMap}) // counted as entered for depth purposes
			if len(stack) > maxDepth {
				maxDepth = len(stack)
			}
			if !need(6) {
				v := fail(Truncated, pos, 0)
				return &v
			}
			kt, vt := b[pos], b[pos+1]
			n := int32(u32(pos + 2))
			if n < 0 {
				v := fail(Negative, pos+2, 0)
				return &v
			}
			pos += 6
			if n == 0 && (!Known(kt) || !Known(vt)) {
				dontCare = true
			}
			if ks, vs := FixedSize(kt), FixedSize(vt); ks > 0 && vs > 0 {
				declare(int64(n) * int64(ks+vs))
			} else {
				declare(int64(n))
			}
			f := &stack[len(stack)-1]
			f.kt, f.vt, f.remain = kt, vt, int64(n)
			return nil
		case TSet, TList:
			stack = append(stack, frame{kind: TList})
			if len(stack) > maxDepth {
				maxDepth = len(stack)
			}
			if !need(5) {
				v := fail(Truncated, pos, 0)
				return &v
			}
			et := b[pos]
			n := int32(u32(pos + 1))
			if n < 0 {
				v := fail(Negative, pos+1, 0)
				return &v
			}
			pos += 5
			if n == 0 && !Known(et) {
				dontCare = true
			}
			if es := FixedSize(et); es > 0 {
				declare(int64(n) * int64(es))
			} else {
				declare(int64(n))
			}
			f := &stack[len(stack)-1]
			f.kt, f.remain = et, int64(n)
			return nil
		default:
			v := fail(Unknown, pos, t)
			return &v
		}
		if len(stack) > maxDepth {
			maxDepth = len(stack)
		}
		return nil
	}
	if v := begin(t); v != nil {
		return *v
	}
	for len(stack) > 0 {
		f := &stack[len(stack)-1]
		switch f.kind {
		case TStruct:
			if !need(1) {
				return fail(Truncated, pos, 0)
			}
			ft := b[pos]
			pos++
			if ft == TStop {
				stack = stack[:len(stack)-1]
				continue
			}
			if !need(2) {
				return fail(Truncated, pos, 0)
			}
			pos += 2
			if v := begin(ft); v != nil {
				return *v
			}
		case TMap:
			if f.remain == 0 {
				stack = stack[:len(stack)-1]
				continue
			}
			var t byte
			if !f.onVal {
				t = f.kt
				f.onVal = true
			} else {
				t = f.vt
				f.onVal = false
				f.remain--
			}
			if v := begin(t); v != nil {
				return *v
			}
		case TList:
			if f.remain == 0 {
				stack = stack[:len(stack)-1]
				continue
			}
			f.remain--
			if v := begin(f.kt); v != nil {
				return *v
			}
		}
	}
	return Verdict{Kind: OK, Len: pos, Depth: maxDepth, MaxDepth: maxDepth, DontCare: dontCare, BigDeclared: big}
}

// --- scalars -----------------------------------------------------------------------------

func BoolV(b bool) *Value {
	if b {
		return &Value{T: TBool, Bits: 1}
	}
	return &Value{T: TBool}
}
func ByteV(v int8) *Value      { return &Value{T: TByte, Bits: uint64(uint8(v))} }
func I16V(v int16) *Value      { return &Value{T: TI16, Bits: uint64(uint16(v))} }
func I32V(v int32) *Value      { return &Value{T: TI32, Bits: uint64(uint32(v))} }
func I64V(v int64) *Value      { return &Value{T: TI64, Bits: uint64(v)} }
func DoubleV(v float64) *Value { return &Value{T: TDouble, Bits: math.Float64bits(v)} }
func StringV(b []byte) *Value  { return &Value{T: TString, Bin: b} }

// --- message envelope ----------------------------------------------------------------------

// EncodeMessageBegin: u32 (0x8001<<16 | type&0xffff) ; string name ; i32 seq.
func EncodeMessageBegin(name []byte, typ int32, seq int32) []byte {
	e := &Encoder{}
	e.u32(0x80010000 | uint32(typ)&0xffff)
	e.u32(uint32(len(name)))
	e.Buf = append(e.Buf, name...)
	e.u32(uint32(seq))
	return e.Buf
}

// Envelope verdict kinds.
const (
	EnvOK = iota
	EnvTruncated
	EnvBadVersion
	EnvNegative
)

type Envelope struct {
	Kind int
	Name []byte
	Type int32
	Seq  int32
	Len  int
}

// ParseMessageBegin parses the delivered bytes as a strict-version message header.
func ParseMessageBegin(b []byte) Envelope {
	if len(b) < 4 {
		return Envelope{Kind: EnvTruncated}
	}
	w := uint32(b[0])<<24 | uint32(b[1])<<16 | uint32(b[2])<<8 | uint32(b[3])
	if w&0xffff0000 != 0x80010000 {
		return Envelope{Kind: EnvBadVersion}
	}
	if len(b) < 8 {
		return Envelope{Kind: EnvTruncated}
	}
	n := int32(uint32(b[4])<<24 | uint32(b[5])<<16 | uint32(b[6])<<8 | uint32(b[7]))
	if n < 0 {
		return Envelope{Kind: EnvNegative}
	}
	if len(b)-8 < int(n)+4 {
		return Envelope{Kind: EnvTruncated}
	}
	p := 8 + int(n)
	seq := int32(uint32(b[p])<<24 | uint32(b[p+1])<<16 | uint32(b[p+2])<<8 | uint32(b[p+3]))
	return Envelope{Kind: EnvOK, Name: b[8:p], Type: int32(w & 0xffff), Seq: seq, Len: p + 4}
}

// Exported big-endian primitives for record-level reference encodings.
func (e *Encoder) U8(v byte)      { e.u8(v) }
func (e *Encoder) U16(v uint16)   { e.u16(v) }
func (e *Encoder) U32(v uint32)   { e.u32(v) }
func (e *Encoder) U64(v uint64)   { e.u64(v) }
func (e *Encoder) Bytes(b []byte) { e.Buf = append(e.Buf, b...) }
func (e *Encoder) LenBytes(b []byte) {
	e.u32(uint32(len(b)))
	e.Buf = append(e.Buf, b...)
}
