package ref

// Reference TTHeader frame builder and parser (DESIGN.md appendix B), written from the
// layout description with wide (>= 32 bit) arithmetic and explicit limits.

// ACLTokenKey is the string-map key under which the ACL-token section is exposed
// (bytedance metainfo "transient" prefix + "gdpr-token": public API of the dependency).
const ACLTokenKey = "RPC_TRANSIT_gdpr-token"

// TTParams are the header parameters.
type TTParams struct {
	Flags uint16
	Seq   int32
	Proto byte
	Int   map[uint16]string
	Str   map[string]string
}

// Section ids.
const (
	InfoPadding = 0x00
	InfoStrKV   = 0x01
	InfoIntKV   = 0x10
	InfoACL     = 0x11
)

// AllowedProtocols is the allow-list of protocol ids.
var AllowedProtocols = []byte{0x00, 0x03, 0x04, 0x10, 0x11}

func protoAllowed(p byte) bool {
	for _, a := range AllowedProtocols {
		if a == p {
			return true
		}
	}
	return false
}

// TTSection is one entry of a frame plan: which section comes where.
type TTSection struct {
	ID      byte
	IntKeys []uint16
	IntVals []string
	StrKeys []string
	StrVals []string
	Token   string
}

// TTMark is a structural byte range of a built frame.
type TTMark struct {
	Off, Len int
	Kind     int
}

const (
	TMMagic = iota
	TMFlags
	TMSeq
	TMSizeField
	TMProto
	TMTransforms
	TMInfoID
	TMCount
	TMStrLen
	TMIntKey
	TMPayload
	TMTotalLen
)

// BuildTTFrame lays out a frame from an explicit section plan (sections in any order,
// repeated, with interleaved padding bytes) followed by payload. It returns the frame and
// its structural marks.
func BuildTTFrame(flags uint16, seq int32, proto byte, transforms []byte, plan []TTSection, payload []byte) ([]byte, []TTMark) {
	e := &Encoder{}
	var marks []TTMark
	mark := func(n, kind int) { marks = append(marks, TTMark{len(e.Buf), n, kind}) }
	mark(4, TMTotalLen)
	e.u32(0)
	mark(2, TMMagic)
	e.u16(0x1000)
	mark(2, TMFlags)
	e.u16(flags)
	mark(4, TMSeq)
	e.u32(uint32(seq))
	mark(2, TMSizeField)
	e.u16(0)
	start := len(e.Buf)
	mark(1, TMProto)
	e.u8(proto)
	mark(1, TMTransforms)
	e.u8(byte(len(transforms)))
	e.Buf = append(e.Buf, transforms...)
	str := func(s string) {
		mark(2, TMStrLen)
		e.u16(uint16(len(s)))
		e.Buf = append(e.Buf, s...)
	}
	for _, s := range plan {
		mark(1, TMInfoID)
		e.u8(s.ID)
		switch s.ID {
		case InfoStrKV:
			mark(2, TMCount)
			e.u16(uint16(len(s.StrKeys)))
			for i := range s.StrKeys {
				str(s.StrKeys[i])
				str(s.StrVals[i])
			}
		case InfoIntKV:
			mark(2, TMCount)
			e.u16(uint16(len(s.IntKeys)))
			for i := range s.IntKeys {
				mark(2, TMIntKey)
				e.u16(s.IntKeys[i])
				str(s.IntVals[i])
			}
		case InfoACL:
			str(s.Token)
		}
	}
	for (len(e.Buf)-start)%4 != 0 {
		e.u8(0)
	}
	declared := len(e.Buf) - start
	e.Buf[12], e.Buf[13] = byte((declared/4)>>8), byte(declared/4)
	mark(len(payload), TMPayload)
	e.Buf = append(e.Buf, payload...)
	total := uint32(len(e.Buf) - 4)
	e.Buf[0], e.Buf[1], e.Buf[2], e.Buf[3] = byte(total>>24), byte(total>>16), byte(total>>8), byte(total)
	return e.Buf, marks
}

// TTFrame is the reference parser's reading of delivered bytes.
type TTFrame struct {
	OK        bool   // every necessary condition for acceptance holds
	Reason    string // first failed condition
	TotalLen  uint32
	Flags     uint16
	Seq       int32
	Declared  int // size field x 4, wide arithmetic
	HeaderLen int // 14 + Declared
	Proto     byte
	Int       map[uint16]string
	Str       map[string]string
	// UnknownInfo: an unknown info id was met: accept/reject is don't-care and the maps are
	// only those seen before it.
	UnknownInfo bool
	// DupKeys: some key occurred more than once (which occurrence wins is not specified).
	DupKeys bool
	// SectionIDs in order of appearance (without padding).
	SectionIDs []byte
	// PaddingTail is the number of trailing zero bytes after the last section.
	PaddingTail int
	// InteriorPadding: a padding byte appeared before a later section.
	InteriorPadding bool
	HaveMeta        bool // >= 14 bytes delivered
	SizeField       uint16
	// every value that occurred for a key, in wire order (for frames with duplicate keys)
	StrAll map[string][]string
	IntAll map[uint16][]string
}

// ParseTTFrame applies the reference acceptance conditions to the delivered bytes.
func ParseTTFrame(b []byte) TTFrame {
	f := TTFrame{}
	if len(b) < 14 {
		f.Reason = "fewer than 14 bytes"
		return f
	}
	f.HaveMeta = true
	f.TotalLen = uint32(b[0])<<24 | uint32(b[1])<<16 | uint32(b[2])<<8 | uint32(b[3])
	f.Flags = uint16(b[6])<<8 | uint16(b[7])
	f.Seq = int32(uint32(b[8])<<24 | uint32(b[9])<<16 | uint32(b[10])<<8 | uint32(b[11]))
	f.SizeField = uint16(b[12])<<8 | uint16(b[13])
	f.Declared = int(f.SizeField) * 4
	f.HeaderLen = 14 + f.Declared
	if !(b[4] == 0x10 && b[5] == 0x00) {
		f.Reason = "magic mismatch"
		return f
	}
	if f.Declared < 2 || f.Declared > 65536 {
		f.Reason = "declared header size outside 2..65536"
		return f
	}
	if len(b) < 14+f.Declared {
		f.Reason = "header info truncated"
		return f
	}
	h := b[14 : 14+f.Declared]
	f.Proto = h[0]
	if !protoAllowed(f.Proto) {
		f.Reason = "protocol id not supported"
		return f
	}
	t := int(h[1])
	if t > f.Declared-2 {
		f.Reason = "transform count exceeds header"
		return f
	}
	i := 2 + t
	u16 := func() (int, bool) {
		if len(h)-i < 2 {
			return 0, false
		}
		v := int(h[i])<<8 | int(h[i+1])
		i += 2
		return v, true
	}
	str := func() (string, bool) {
		n, ok := u16()
		if !ok || len(h)-i < n {
			return "", false
		}
		s := string(h[i : i+n])
		i += n
		return s, true
	}
	setStr := func(k, v string) {
		if f.Str == nil {
			f.Str = map[string]string{}
		}
		if _, dup := f.Str[k]; dup {
			f.DupKeys = true
		}
		f.Str[k] = v
		if f.StrAll == nil {
			f.StrAll = map[string][]string{}
		}
		f.StrAll[k] = append(f.StrAll[k], v)
	}
	pad := 0
	for i < len(h) {
		id := h[i]
		i++
		if id == InfoPadding {
			pad++
			continue
		}
		if pad > 0 {
			f.InteriorPadding = true
		}
		pad = 0
		f.SectionIDs = append(f.SectionIDs, id)
		switch id {
		case InfoStrKV:
			if f.Str == nil {
				f.Str = map[string]string{}
			}
			n, ok := u16()
			if !ok {
				f.Reason = "string KV section incomplete"
				return f
			}
			for k := 0; k < n; k++ {
				key, ok1 := str()
				if !ok1 {
					f.Reason = "string KV section incomplete"
					return f
				}
				val, ok2 := str()
				if !ok2 {
					f.Reason = "string KV section incomplete"
					return f
				}
				setStr(key, val)
			}
		case InfoIntKV:
			if f.Int == nil {
				f.Int = map[uint16]string{}
			}
			n, ok := u16()
			if !ok {
				f.Reason = "int KV section incomplete"
				return f
			}
			for k := 0; k < n; k++ {
				key, ok1 := u16()
				if !ok1 {
					f.Reason = "int KV section incomplete"
					return f
				}
				val, ok2 := str()
				if !ok2 {
					f.Reason = "int KV section incomplete"
					return f
				}
				if _, dup := f.Int[uint16(key)]; dup {
					f.DupKeys = true
				}
				f.Int[uint16(key)] = val
				if f.IntAll == nil {
					f.IntAll = map[uint16][]string{}
				}
				f.IntAll[uint16(key)] = append(f.IntAll[uint16(key)], val)
			}
		case InfoACL:
			tok, ok := str()
			if !ok {
				f.Reason = "ACL token section incomplete"
				return f
			}
			setStr(ACLTokenKey, tok)
		default:
			f.UnknownInfo = true
			f.Reason = "unknown info id"
			return f
		}
	}
	f.PaddingTail = pad
	f.OK = true
	return f
}
