package ref

// Chooser is the tape interface the generators draw from (value 0 = simplest).
type Chooser interface {
	Choose(n int) int
}

func pick(c Chooser, weights ...int) int {
	total := 0
	for _, w := range weights {
		total += w
	}
	v := c.Choose(total)
	for i, w := range weights {
		if v < w {
			return i
		}
		v -= w
	}
	return len(weights) - 1
}

// GenOpts bounds the value generator.
type GenOpts struct {
	MaxBytes   int  // soft budget for the encoded size of one value
	BigString  bool // allow strings beyond the reader's buffer size
	HugeString bool // allow (rarely) strings of 1..8 MiB
	MaxDepth   int  // maximum container nesting of ordinary values
}

// boundary-biased 64-bit patterns
func genBits(c Chooser, width int) uint64 {
	var v uint64
	switch pick(c, 3, 3, 2, 2, 3) {
	case 0:
		v = []uint64{0, 1, 2, 0x7f, 0x80, 0xff, 0x100, 0x7fff, 0x8000, 0xffff, 0x7fffffff, 0x80000000, 0xffffffff,
			0x7fffffffffffffff, 0x8000000000000000, 0xffffffffffffffff, 0x0102030405060708, 0x7ff0000000000000, 0x7ff8000000000001, 0xfff0000000000000}[c.Choose(20)]
	case 1:
		v = uint64(1) << uint(c.Choose(64)) // single bit
	case 2:
		v = ^(uint64(1) << uint(c.Choose(64)))
	case 3:
		v = uint64(c.Choose(256)) // small
	default:
		for i := 0; i < 4; i++ {
			v = v<<16 | uint64(c.Choose(65536))
		}
	}
	if width < 64 {
		v &= (uint64(1) << uint(width)) - 1
	}
	return v
}

func genBytes(c Chooser, n int) []byte {
	b := make([]byte, n)
	seed := uint64(c.Choose(65536))*2654435761 + 12345
	mode := c.Choose(3)
	for i := range b {
		seed ^= seed << 13
		seed ^= seed >> 7
		seed ^= seed << 17
		switch mode {
		case 0:
			b[i] = byte(seed >> 11) // arbitrary, non-UTF-8
		case 1:
			b[i] = 'a' + byte(seed>>20)%26
		default:
			b[i] = byte(i) ^ byte(seed>>60)
		}
	}
	return b
}

func genStringLen(c Chooser, o *GenOpts) int {
	switch pick(c, 4, 4, 2, 2, 1) {
	case 0:
		return []int{0, 1, 2, 3, 7}[c.Choose(5)]
	case 1:
		return c.Choose(64)
	case 2:
		return c.Choose(600)
	case 3:
		if o.BigString {
			return []int{4091, 4092, 4093, 4096, 4097, 8188, 8192, 8193, 5000, 12000}[c.Choose(10)]
		}
		return c.Choose(200)
	default:
		if o.BigString {
			if o.HugeString && c.Choose(40) == 0 {
				// exact binary megabytes and their neighbours (chunked skipping, size classes)
				return []int{1 << 20, 4 << 20, 4<<20 - 1, 4<<20 + 1, 8 << 20}[c.Choose(5)]
			}
			return []int{20000, 65535, 65536, 70000}[c.Choose(4)]
		}
		return c.Choose(100)
	}
}

// GenScalar generates a value of a non-container type t.
func GenScalar(c Chooser, t byte, o *GenOpts) *Value {
	switch t {
	case TBool:
		return &Value{T: TBool, Bits: uint64(c.Choose(2))}
	case TByte:
		return &Value{T: TByte, Bits: genBits(c, 8)}
	case TI16:
		return &Value{T: TI16, Bits: genBits(c, 16)}
	case TI32:
		return &Value{T: TI32, Bits: genBits(c, 32)}
	case TI64, TDouble:
		return &Value{T: t, Bits: genBits(c, 64)}
	case TString:
		return &Value{T: TString, Bin: genBytes(c, genStringLen(c, o))}
	}
	panic("GenScalar: container type")
}

// GenType draws a value type; index 0 (bool) is the simplest.
func GenType(c Chooser) byte {
	return AllTypes[pick(c, 2, 2, 2, 2, 3, 2, 4, 3, 3, 2, 3)]
}

func genCount(c Chooser) int {
	switch pick(c, 3, 3, 3, 2, 1) {
	case 0:
		return 1
	case 1:
		return 0
	case 2:
		return 2
	case 3:
		return 3 + c.Choose(6)
	default:
		return 10 + c.Choose(60)
	}
}

// GenValue generates a typed value tree of type t. budget (bytes) shrinks as it is used;
// when exhausted only minimal values are produced.
func GenValue(c Chooser, t byte, o *GenOpts, depth int, budget *int) *Value {
	if !IsContainer(t) {
		v := GenScalar(c, t, o)
		*budget -= EncodedLen(v)
		return v
	}
	cheap := *budget <= 0 || depth >= o.MaxDepth
	v := &Value{T: t}
	switch t {
	case TStruct:
		n := genCount(c)
		if cheap {
			n = 0
		}
		*budget -= 1
		for i := 0; i < n && *budget > 0; i++ {
			ft := GenType(c)
			if depth+1 >= o.MaxDepth && IsContainer(ft) {
				ft = TI32
			}
			id := int16(genBits(c, 16))
			if c.Choose(2) == 0 {
				id = int16(i + 1)
			}
			*budget -= 3
			v.Fields = append(v.Fields, Field{ID: id, V: GenValue(c, ft, o, depth+1, budget)})
		}
	case TMap:
		v.KT, v.VT = GenType(c), GenType(c)
		if depth+1 >= o.MaxDepth {
			if IsContainer(v.KT) {
				v.KT = TString
			}
			if IsContainer(v.VT) {
				v.VT = TI64
			}
		}
		n := genCount(c)
		if cheap {
			n = 0
		}
		*budget -= 6
		for i := 0; i < n && *budget > 0; i++ {
			v.Elems = append(v.Elems, GenValue(c, v.KT, o, depth+1, budget), GenValue(c, v.VT, o, depth+1, budget))
		}
	case TSet, TList:
		v.ET = GenType(c)
		if depth+1 >= o.MaxDepth && IsContainer(v.ET) {
			v.ET = TByte
		}
		n := genCount(c)
		if cheap {
			n = 0
		}
		*budget -= 5
		for i := 0; i < n && *budget > 0; i++ {
			v.Elems = append(v.Elems, GenValue(c, v.ET, o, depth+1, budget))
		}
	}
	return v
}

// GenPair generates a map with the given key and value types (for the 11x11 sweep).
func GenPair(c Chooser, kt, vt byte, o *GenOpts, budget *int) *Value {
	v := &Value{T: TMap, KT: kt, VT: vt}
	n := genCount(c)
	for i := 0; i < n && *budget > 0; i++ {
		v.Elems = append(v.Elems, GenValue(c, kt, o, 1, budget), GenValue(c, vt, o, 1, budget))
	}
	return v
}

// GenChain builds a value nested exactly d container levels deep: a chain of
// single-child containers of tape-chosen kinds around a leaf.
func GenChain(c Chooser, d int, o *GenOpts) *Value {
	leafT := []byte{TI32, TBool, TString, TI64}[c.Choose(4)]
	var cur *Value = GenScalar(c, leafT, &GenOpts{})
	kind := c.Choose(6) // 0: mixed per level, else fixed kind for the whole chain
	bushy := c.Choose(3) == 0
	for i := 0; i < d; i++ {
		k := kind
		if k == 0 {
			k = 1 + c.Choose(5)
		}
		var w *Value
		switch k {
		case 1:
			w = &Value{T: TStruct}
			// siblings of the chain child: empty or tiny containers and scalars before and after
			// it (breadth must not cost nesting budget)
			nb := 0
			if bushy {
				nb = c.Choose(3)
			}
			for j := 0; j < nb; j++ {
				w.Fields = append(w.Fields, Field{ID: int16(100 + j), V: smallSibling(c)})
			}
			w.Fields = append(w.Fields, Field{ID: int16(i + 1), V: cur})
			if bushy && c.Choose(3) == 0 {
				w.Fields = append(w.Fields, Field{ID: int16(200), V: smallSibling(c)})
			}
		case 2:
			w = &Value{T: TList, ET: cur.T, Elems: []*Value{cur}}
		case 3:
			w = &Value{T: TSet, ET: cur.T, Elems: []*Value{cur}}
		case 4:
			w = &Value{T: TMap, KT: TI32, VT: cur.T, Elems: []*Value{I32V(int32(i)), cur}}
		default:
			w = &Value{T: TMap, KT: cur.T, VT: TByte, Elems: []*Value{cur, ByteV(int8(i))}}
		}
		cur = w
	}
	return cur
}

func smallSibling(c Chooser) *Value {
	switch c.Choose(5) {
	case 0:
		return &Value{T: TList, ET: TI32}
	case 1:
		return &Value{T: TMap, KT: TString, VT: TI64}
	case 2:
		return &Value{T: TStruct}
	case 3:
		return &Value{T: TSet, ET: TString, Elems: []*Value{StringV([]byte("s"))}}
	default:
		return I32V(int32(c.Choose(100)))
	}
}

// GenWide builds a shallow value with many container-typed siblings: a struct with n
// container fields, or a list/map of n small containers.
func GenWide(c Chooser, n int) *Value {
	switch c.Choose(3) {
	case 0:
		v := &Value{T: TStruct}
		for i := 0; i < n; i++ {
			v.Fields = append(v.Fields, Field{ID: int16(i + 1), V: smallSibling(c)})
		}
		return v
	case 1:
		v := &Value{T: TList, ET: TStruct}
		for i := 0; i < n; i++ {
			v.Elems = append(v.Elems, &Value{T: TStruct, Fields: []Field{{ID: 1, V: &Value{T: TList, ET: TByte}}}})
		}
		return v
	default:
		v := &Value{T: TMap, KT: TI32, VT: TList}
		for i := 0; i < n; i++ {
			v.Elems = append(v.Elems, I32V(int32(i)), &Value{T: TList, ET: TI16, Elems: []*Value{I16V(int16(i))}})
		}
		return v
	}
}
