module verif/harness

go 1.18

require (
	github.com/bytedance/gopkg v0.1.1
	github.com/cloudwego/gopkg v0.0.0
)

replace github.com/cloudwego/gopkg => /repo
