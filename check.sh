#!/bin/bash
# Usage: ./check.sh --setup | ./check.sh Cxx quick|thorough | ./check.sh Cxx --replay <file> | ./check.sh --selftest [Cxx]
# Exit codes: 0 property held on everything explored; 1 VIOLATION line printed; 2 build/watchdog/harness fault.
set -u
cd "$(dirname "$0")"
V=$(pwd)
export GODEBUG=goindex=0 GOFLAGS=-mod=mod GOPROXY=off GOSUMDB=off GOTOOLCHAIN=local CGO_ENABLED=1
# VERIF_REPO (default /repo) and VERIF_OUT (default /verif) exist for evaluating seeded
# defects in scratch worktrees without touching /repo or the committed evidence; the
# commands registered in MANIFEST.json never set them.
REPO="${VERIF_REPO:-/repo}"
OUT="${VERIF_OUT:-$V}"
B="$OUT/build"
mkdir -p "$B" "$B/tmp" "$OUT/evidence" "$OUT/replays"

build() { # $1 = 1 to also build the race binary
  cd "$V/harness" || exit 2
  local MODFILE=()
  if [ "$REPO" = /repo ] && [ "$OUT" = "$V" ]; then
    cp /repo/go.sum go.sum 2>/dev/null
  else
    sed "s|=> /repo|=> $REPO|" go.mod > "$B/go.alt.mod"; cp "$REPO/go.sum" "$B/go.alt.sum"
    MODFILE=(-modfile "$B/go.alt.mod")
  fi
  local dep
  dep=$(go list "${MODFILE[@]}" -m -f '{{.Dir}}' github.com/bytedance/gopkg 2>"$B/build.err") || { cat "$B/build.err" >&2; echo "HARNESS-FAULT: cannot locate bytedance/gopkg" >&2; exit 2; }
  cat > "$B/overlay.json" <<JSON
{"Replace": {"$dep/lang/mcache/mcache.go": "$V/shim/mcache.go", "$dep/lang/dirtmake/bytes.go": "$V/shim/bytes.go"}}
JSON
  go build "${MODFILE[@]}" -overlay "$B/overlay.json" -o "$B/simcheck" ./cmd/simcheck 2>"$B/build.err" || { cat "$B/build.err" >&2; echo "HARNESS-FAULT: build failed" >&2; exit 2; }
  if [ "${1:-0}" = 1 ]; then
    go build "${MODFILE[@]}" -race -overlay "$B/overlay.json" -o "$B/simcheck.race" ./cmd/simcheck 2>"$B/build.err" || { cat "$B/build.err" >&2; echo "HARNESS-FAULT: race build failed" >&2; exit 2; }
  fi
  if [ "${1:-0}" = 1 ]; then
    # fine-grained build: a scratch copy of the repository whose every statement is preceded
    # by a scheduling point (harness/cmd/instrument), rebuilt from the working tree each time
    go build -o "$B/instrument" ./cmd/instrument 2>"$B/build.err" || { cat "$B/build.err" >&2; echo "HARNESS-FAULT: instrumenter build failed" >&2; exit 2; }
    rm -rf "$B/repo.fine"; mkdir -p "$B/repo.fine"
    rsync -a --exclude .git "$REPO/" "$B/repo.fine/" || { echo "HARNESS-FAULT: cannot copy the repository" >&2; exit 2; }
    "$B/instrument" "$B/repo.fine" > "$B/instrument.log" 2>&1 || { cat "$B/instrument.log" >&2; echo "HARNESS-FAULT: instrumentation failed" >&2; exit 2; }
    sed "s|=> /repo|=> $B/repo.fine|" go.mod > "$B/go.fine.mod"; cp "$REPO/go.sum" "$B/go.fine.sum"
    go build -modfile "$B/go.fine.mod" -tags fine -overlay "$B/overlay.json" -o "$B/simcheck.fine" ./cmd/simcheck 2>"$B/build.err" || { cat "$B/build.err" >&2; echo "HARNESS-FAULT: fine-grained build failed" >&2; exit 2; }
  fi
  cd "$V"
}

needs_race() { case "$1" in C14) return 0;; *) return 1;; esac; }

case "${1:-}" in
  --setup)
    build 1; echo "setup ok"; exit 0;;
  --selftest)
    build 1
    shift
    exec "$B/simcheck" -selftest -finebin "$B/simcheck.fine" -tmp "$B/tmp" -replays "$B/tmp" ${1:+-prop "$1"} ${2:+-selftest-n "$2"};;
  C[0-9]*)
    P=$1; shift
    R=0; needs_race "$P" && R=1
    build $R
    case "${1:-quick}" in
      --replay) exec "$B/simcheck" -replay "$2" -racebin "$B/simcheck.race" -finebin "$B/simcheck.fine" -tmp "$B/tmp";;
      quick|thorough) T=$1; shift; exec "$B/simcheck" -prop "$P" -tier "$T" -racebin "$B/simcheck.race" -finebin "$B/simcheck.fine" -evidence "$OUT/evidence" -replays "$OUT/replays" -known "$V/known_findings.json" -tmp "$B/tmp" "$@";;
      *) echo "usage" >&2; exit 2;;
    esac;;
  *) echo "usage: $0 --setup | Cxx quick|thorough | Cxx --replay file | --selftest" >&2; exit 2;;
esac
